"""C14 - formatting preserves the program and is idempotent.

Decides (structural, sibling-table agreement between lexer/parser and formatter):
  R1 every word the lexer reserves is quoted by both identifier printers
  R2 the class of names printed bare is inside the lexer's plain-identifier class
  R3 formatter strengths/associativity parenthesise every (parent, child, side) triple the
     parser would regroup (exhaustive over the extracted Pratt table, + unary/range/call rows)
  R4 literal printers keep the literal kind (float stays float; raw strings are not escaped)
  R5 string escapes printed are escapes the lexer decodes to the same character; interpolation
     escapes \\ " { }
  R7 printed operator spellings re-lex to the same operator
  R8 every declared / referenced name is written through an identifier printer
Not decided: line breaking, comments, tree equality for all programs.
"""
import re

from synq import (walk, show, show_stmts, strs, last_seg, pat_alts, pat_head, tail_expr, matches_of, mcalls, calls,
                  macros, lit_val, AnchorMissing)
import tables
from C02 import pratt_table, binops_of_operator_fn, ora

META = (
    "sibling-table agreement between lexer/parser and formatter",
    ["A1", "A3 oracles/prql_precedence.json (shared with C02)", "line breaking and comments are not decided"],
    "tables extracted from the lexer (keyword set, identifier classes, escape arms, operator spellings), the parser "
    "(Pratt table) and the formatter (keyword sets, bare-identifier regex, binding strengths, associativity, escape "
    "replacements) compared with each other; exhaustive enumeration of operator nesting triples",
    True,
)

PRED = {
    "is_alphabetic": lambda c: c.isalpha(),
    "is_alphanumeric": lambda c: c.isalnum(),
    "is_ascii_alphabetic": lambda c: c.isascii() and c.isalpha(),
    "is_ascii_digit": lambda c: c in "0123456789",
    "is_ascii_alphanumeric": lambda c: c.isascii() and c.isalnum(),
    "is_numeric": lambda c: c.isnumeric(),
}
SAMPLE_CHARS = [chr(i) for i in range(32, 127)] + list("éßλжあ中٣²Ⅷ ​")


def pred_of(expr):
    """Compile a Rust char predicate (closure body) to a python function, or None if not understood."""
    k = expr.get("k")
    if k == "bin" and expr["op"] in ("||", "&&"):
        a, b = pred_of(expr["lhs"]), pred_of(expr["rhs"])
        if a is None or b is None:
            return None
        return (lambda c: a(c) or b(c)) if expr["op"] == "||" else (lambda c: a(c) and b(c))
    if k == "un" and expr["op"] == "!":
        a = pred_of(expr["e"])
        return None if a is None else (lambda c: not a(c))
    if k == "mcall" and expr["m"] in PRED and not expr["a"]:
        return PRED[expr["m"]]
    if k == "bin" and expr["op"] in ("==", "!="):
        v = lit_val(expr["rhs"])
        if isinstance(v, str) and len(v) == 1:
            return (lambda c: c == v) if expr["op"] == "==" else (lambda c: c != v)
    if k == "macro" and expr["n"] == "matches" and "pat" in expr:
        alts = [pat_head(a) for a in pat_alts(expr["pat"])]
        chars = [a[1] for a in alts if isinstance(a, tuple) and a[0] == "lit"]
        if len(chars) == len(alts):
            return lambda c: c in chars
    return None


def lexer_reserved(syn):
    kw = syn.fn("lexer::keyword", crate="prqlc_parser")
    words = set()
    for c in calls(kw["body"], "just"):
        v = lit_val(c["a"][0]) if c["a"] else None
        if isinstance(v, str):
            words.add(v)
    for name in ("boolean", "null"):
        f = syn.fn("lexer::" + name, crate="prqlc_parser")
        for c in calls(f["body"], "just"):
            v = lit_val(c["a"][0]) if c["a"] else None
            if isinstance(v, str):
                words.add(v)
    return kw, words


def r1(ctx, rep):
    rep.rule("C14.R1", "every word the lexer reserves is quoted by the identifier printers", floor=26)
    syn = ctx.syn
    kw, words = lexer_reserved(syn)
    # formatter set
    fk = syn.fn("codegen::ast::keywords", crate="prqlc")
    fmt_words = set(strs(fk["body"]))
    # Display of Ident parts
    dp = syn.fn("ident::display_ident_part", crate="prqlc_parser")
    disp_words = set()
    uses_reserved = False
    for n in walk(dp["body"]):
        if n.get("k") == "mcall" and n["m"] == "contains" and show(n["r"]).endswith("RESERVED_WORDS"):
            uses_reserved = True
    if uses_reserved:
        st = syn.static("ident::RESERVED_WORDS")
        disp_words = set(strs(st["init"]))
        # and the test must lead to escaping
        # the reserved-word test must be part of the condition that decides about backticks (locals inlined)
        Ad = __import__("alpha").Inliner(dp)
        conds = [Ad.show(n["c"]) for n in walk(dp["body"]) if n.get("k") == "if"]
        if not any("RESERVED_WORDS.contains(" in c_ for c_ in conds):
            disp_words = set()
        # .. whatever the other circumstances are (position in a dotted name, ..): with the reserved-word test true, the branch that writes
        # backticks is taken for every value of the remaining atoms of the condition
        import boolfn as _bfd
        for n in walk(dp["body"]):
            if n.get("k") == "if" and n.get("e") is not None and "RESERVED_WORDS.contains(" in Ad.show(n["c"]):
                try:
                    table = _bfd.rows(n["c"], Ad, lambda t: True if "RESERVED_WORDS.contains(" in t and not t.startswith("!") else None)
                    for env, val in table:
                        taken = n["t"] if val else n["e"]
                        if "`" not in show_stmts(taken, maxdepth=8):
                            disp_words = set()
                            rep.note(f"display_ident_part prints a reserved word bare when {env}")
                except _bfd.Unknown:
                    pass
    wi = syn.fn("codegen::ast::write_ident_part", crate="prqlc")
    cond_ok = False
    import alpha as _al0
    import boolfn as _bf
    Aw0 = _al0.Inliner(wi)
    wp = [p_["name"] for p_ in wi.get("params", []) if isinstance(p_, dict) and "name" in p_] or ["s"]
    for n in walk(wi["body"]):
        if n.get("k") == "if" and n.get("e") is not None:
            rows_ = []
            try:
                for m_ in (True, False):
                    for kw in (True, False):
                        def atom(t, m_=m_, kw=kw):
                            t = t.replace(" ", "")
                            if t == f"valid_prql_ident().is_match({wp[0]})":
                                return m_
                            if t == f"keywords().contains({wp[0]})":
                                return kw
                            return None
                        taken = n["t"] if _bf.ev(n["c"], atom, Aw0) else n["e"]
                        quoted = "`" in show_stmts(taken)
                        rows_.append(quoted == (not (m_ and not kw)))
                cond_ok = all(rows_)
            except _bf.Unknown:
                cond_ok = False
    rep.check(cond_ok, "write_ident_part:shape", "write_ident_part must print bare only when the regex matches AND the word is not a keyword, else in backticks", file=wi["file"], line=wi["l"], fn=wi["path"])
    for w in sorted(words):
        rep.check(w in fmt_words, f"codegen-keyword:{w}",
                  f"the lexer turns `{w}` into a keyword/literal token but codegen::keywords() does not list it: a name `{w}` is printed without backticks and re-parses as something else",
                  file=fk["file"], line=fk["l"], fn=fk["path"])
        rep.check(w in disp_words, f"display-keyword:{w}",
                  f"the lexer reserves `{w}` but Ident's Display (display_ident_part) prints it bare: `{w}` used as a column name in an expression is printed without backticks",
                  file=dp["file"], line=dp["l"], fn=dp["path"])


def regex_classes(rx):
    """^(?:\\*|[first][rest]*)$ -> (first_chars_pred, rest_chars_pred) or None"""
    m = re.fullmatch(r"\^\(\?:\\\*\|\[([^\]]+)\]\[([^\]]+)\]\*\)\$", rx)
    if not m:
        return None

    def cls(spec):
        chars = set()
        i = 0
        while i < len(spec):
            if i + 2 < len(spec) and spec[i + 1] == "-":
                for o in range(ord(spec[i]), ord(spec[i + 2]) + 1):
                    chars.add(chr(o))
                i += 3
            else:
                chars.add(spec[i])
                i += 1
        return chars
    return cls(m.group(1)), cls(m.group(2))


def r2(ctx, rep):
    rep.rule("C14.R2", "names printed bare are lexable as plain identifiers", floor=4)
    syn = ctx.syn
    ip = syn.fn("lexer::ident_part", crate="prqlc_parser")
    flt = sorted([m for m in mcalls(ip["body"], "filter")], key=lambda m: m["l"])
    preds = []
    for m in flt:
        if m["a"] and m["a"][0].get("k") == "closure":
            preds.append(pred_of(m["a"][0]["body"]))
        elif m["a"] and m["a"][0].get("k") == "path":
            # a predicate passed by name: a nested fn of ident_part, a local closure, or a private function of the same file
            nm = last_seg(m["a"][0]["p"])
            body = None
            for x in walk(ip["body"]):
                if x.get("k") == "item_fn" and x.get("name") == nm and "body" in x:
                    body = tail_expr(x["body"])
                if x.get("k") == "local" and x["pat"].get("k") == "p_ident" and x["pat"]["n"] == nm and x.get("init") is not None and x["init"].get("k") == "closure":
                    body = x["init"]["body"]
            if body is None:
                hs = [h for h in syn.fns if h["crate"] == ip["crate"] and h["file"] == ip["file"] and h["name"] == nm and "body" in h]
                body = tail_expr(hs[0]["body"]) if len(hs) == 1 else None
            preds.append(pred_of(body) if body is not None else None)
    if len(preds) < 2 or any(p is None for p in preds[:2]):
        raise AnchorMissing("lexer::ident_part: expected two `.filter(|c| ..)` character predicates")
    lex_first, lex_rest = preds[0], preds[1]
    # formatter regex
    vf = syn.fn("codegen::ast::valid_prql_ident", crate="prqlc")
    rx = [s for s in strs(vf["body"]) if s.startswith("^")]
    # language inclusion by enumeration: every string (length <= 3 over representative characters) that the
    # formatter's regex accepts must be a plain identifier of the lexer (or the wildcard `*`)
    import itertools
    alphabet = ["a", "Z", "_", "0", "9", "$", "-", " ", ".", "\u00e9", "*", "`", "\u4e2d"]
    try:
        cre = re.compile(rx[0]) if rx else None
    except re.error:
        cre = None
    if cre is None:
        rep.bad("regex-shape", f"valid_prql_ident regex {rx} cannot be interpreted", file=vf["file"], line=vf["l"], fn=vf["path"])
    else:
        bad = []
        n = 0
        for ln in (1, 2, 3):
            for tup in itertools.product(alphabet, repeat=ln):
                w = "".join(tup)
                n += 1
                if cre.match(w) and w != "*":
                    if not (lex_first(w[0]) and all(lex_rest(c) for c in w[1:])):
                        bad.append(w)
        rep.check(not bad, "regex:language", f"write_ident_part prints e.g. {bad[:6]} bare, but the lexer's plain identifier ({n} candidate strings enumerated) does not accept them: the formatted program does not re-parse to the same name",
                  detail={"enumerated": n, "bad": bad[:10]}, file=vf["file"], line=vf["l"], fn=vf["path"])
    # Display
    dp = syn.fn("ident::display_ident_part", crate="prqlc_parser")
    # by role: the predicate given to `starts_with(..)` and the one given to `.any(..)`, whether nested fn, local closure or inline
    import guards as _g
    par_ = _g.parents(dp["body"])
    inner = {n["name"]: n for n in walk(dp["body"]) if n.get("k") == "item_fn"}

    def pred_body(arg):
        if arg is None:
            return None
        if arg.get("k") == "closure":
            return arg["body"]
        if arg.get("k") == "path":
            if arg["p"] in inner:
                return tail_expr(inner[arg["p"]]["body"])
            d = _g.visible_def_nodes(par_, arg, arg["p"])
            if d is not None and d.get("init", {}).get("k") == "closure":
                return d["init"]["body"]
        return None
    sw = [n for n in walk(dp["body"]) if n.get("k") == "mcall" and n["m"] == "starts_with" and n["a"]]
    an = [n for n in walk(dp["body"]) if n.get("k") == "mcall" and n["m"] == "any" and n["a"]]
    fs_body = pred_body(sw[0]["a"][0]) if sw else None
    fsub_body = pred_body(an[0]["a"][0]) if an else None
    if fs_body is None or fsub_body is None:
        raise AnchorMissing("display_ident_part: predicates of `starts_with(..)` / `.any(..)`")

    class _B(dict):
        pass
    fs, fsub = {"body": {"k": "block", "s": [fs_body]}}, {"body": {"k": "block", "s": [fsub_body]}}
    ps, psub = pred_of(tail_expr(fs["body"])), pred_of(tail_expr(fsub["body"]))
    if ps is None or psub is None:
        rep.bad("display:shape", "cannot interpret the character predicates of display_ident_part", file=dp["file"], line=dp["l"], fn=dp["path"])
    else:
        badf = [c for c in SAMPLE_CHARS if not ps(c) and not lex_first(c)]
        badr = [c for c in SAMPLE_CHARS if not psub(c) and not lex_rest(c)]
        rep.check(not badf, "display:first", f"Ident Display prints names starting with {badf} bare, but the lexer's identifier cannot start with them (e.g. `$x` re-lexes as a parameter)", file=dp["file"], line=dp["l"], fn=dp["path"])
        rep.check(not badr, "display:rest", f"Ident Display prints names containing {badr} bare, but the lexer cannot lex them in an identifier", file=dp["file"], line=dp["l"], fn=dp["path"])
    # needs_escape combines: empty, first, rest
    import alpha as _alpha
    A_ = _alpha.Inliner(dp)
    conds = [A_.show(n["c"]) for n in walk(dp["body"]) if n.get("k") == "if"]
    txt = max(conds, key=len) if conds else ""
    rep.check("s.is_empty()" in txt and ".starts_with(" in txt and ".any(" in txt and txt.count("||") >= 2, "display:combine",
              "display_ident_part must escape empty names, a forbidden first character and any forbidden later character", file=dp["file"], line=dp["l"], fn=dp["path"])


def _inner_match(syn, owner, body):
    """The per-operator match of a `Binary` arm: inline, or in a private helper of the same file called with the operator."""
    inner = body if body.get("k") == "match" else tail_expr(body)
    if inner is not None and inner.get("k") == "call" and len(inner["a"]) == 1:
        hs = [h for h in syn.fns if h["crate"] == owner["crate"] and h["file"] == owner["file"] and h["name"] == last_seg(show(inner["f"])) and "body" in h]
        if len(hs) == 1:
            t = tail_expr(hs[0]["body"])
            inner = t if t is not None and t.get("k") == "match" else inner
    if inner is None or inner.get("k") != "match":
        raise AnchorMissing(f"{owner['path']}: per-operator match of the Binary arm")
    return inner


def fmt_tables(syn):
    """The formatter's strength and associativity per expression kind and per binary operator, read by *selecting the arm* each constructed
    value takes (matcheval): nested or flattened matches and per-operator helpers give the same table."""
    import matcheval as ME
    f = syn.fn("codegen::ast::binding_strength", crate="prqlc")
    a = syn.fn("codegen::ast::associativity", crate="prqlc")
    binop = syn.adt("BinOp", crate="prqlc_parser")
    ekind = syn.adt("ExprKind", crate="prqlc_parser")

    def value_of(fn, val):
        prm = fn["params"][0]["name"]
        try:
            leaf = ME.select(fn["body"], {prm: val}, syn, fn)
        except ME.Unknown as e:
            raise AnchorMissing(f"{fn['path']}: cannot select the arm for {val} ({e})")
        return tables.arm_value(leaf)

    def pathval(v):
        return last_seg(v[1]) if isinstance(v, tuple) else v
    kinds, ops, assoc = {}, {}, {}
    for kv in tables.enum_variants(ekind):
        if kv == "Binary":
            continue
        kinds[kv] = value_of(f, ME.V(kv))
    for op in tables.enum_variants(binop):
        val = ME.V("Binary", args=[ME.V("BinaryExpr", fields={"op": ME.V(op)})])
        ops[op] = value_of(f, val)
        assoc[op] = pathval(value_of(a, val))
    # defaults: the value of the kinds without an arm of their own (most common value), kept for the callers that ask for them
    from collections import Counter
    default = Counter(kinds.values()).most_common(1)[0][0] if kinds else None
    kinds = {k_: v for k_, v in kinds.items() if v != default}
    adefault = Counter(assoc.values()).most_common(1)[0][0] if assoc else None
    kd = {kv: pathval(value_of(a, ME.V(kv))) for kv in tables.enum_variants(ekind) if kv != "Binary"}
    kind_default = Counter(kd.values()).most_common(1)[0][0] if kd else None
    return f, a, kinds, ops, default, assoc, adefault, kind_default


def r3(ctx, rep):
    rep.rule("C14.R3", "formatter parenthesises every operator nesting the parser would regroup (exhaustive triples)", floor=17 * 17 * 2 + 9)
    syn = ctx.syn
    pf, pr, rows = pratt_table(syn)
    level, passoc = {}, {}
    for r in rows:
        if r["kind"] != "infix":
            continue
        _, ops = binops_of_operator_fn(syn, r["op_fn"])
        for o in ops:
            level[o] = r["level"]
            passoc[o] = r["assoc"]
    f, a, kinds, ops, default, assoc, adefault, kind_default = fmt_tables(syn)
    variants = tables.enum_variants(syn.adt("BinOp", crate="prqlc_parser"))
    for v in variants:
        if v not in ops or not isinstance(ops[v], int):
            rep.bad(f"strength:{v}", f"codegen::binding_strength has no numeric row for BinOp::{v}", file=f["file"], line=f["l"], fn=f["path"])
    # needs_parenthesis model (shape checked below)
    def fmt_parens(ctx_strength, child_strength, child_assoc, side):
        if ctx_strength > child_strength:
            return True
        if ctx_strength < child_strength:
            return False
        if side == "L":
            return not (child_assoc == "Left")
        if side == "R":
            return not (child_assoc == "Right")
        return True

    def parser_regroups(parent, child, side):
        """printing `child-expr` bare as the `side` operand of parent: does the parser build a different tree?"""
        lp, lc = level[parent], level[child]
        if lc > lp:
            return False
        if lc < lp:
            return True
        # same level: same associativity for the whole level
        if side == "L":
            return passoc[child] != "left"
        return passoc[child] != "right"

    for P in variants:
        for C in variants:
            for side in ("L", "R"):
                if P not in ops or C not in ops or P not in level or C not in level:
                    continue
                need = parser_regroups(P, C, side)
                got = fmt_parens(ops[P], ops[C], assoc.get(C, adefault), side)
                key = f"triple:{P}:{C}:{side}"
                if need and not got:
                    ex = f"(a {C} b) {P} c" if side == "L" else f"a {P} (b {C} c)"
                    rep.bad(key, f"the formatter prints `{ex}` without the parentheses (strength {ops[C]} vs context {ops[P]}, child assoc {assoc.get(C, adefault)}), "
                            f"but the parser (levels {level[C]} / {level[P]}, {passoc[C]}-assoc) regroups it: the formatted program is a different expression",
                            file=f["file"], line=f["l"], fn=f["path"])
                else:
                    rep.ok(key, nontrivial=need)
    # unary / range / call rows
    un, rg, call, fn_ = kinds.get("Unary"), kinds.get("Range"), kinds.get("FuncCall"), kinds.get("Func")
    top = max(ops.values())
    low = min(ops.values())
    rep.check(isinstance(un, int) and isinstance(rg, int) and un > rg >= top, "kinds:unary>range>=binary",
              f"unary ({un}) must bind tighter than range ({rg}), which must bind at least as tight as every binary operator ({top}) - the parser applies unary, then range, then the Pratt table",
              file=f["file"], line=f["l"], fn=f["path"])
    rep.check(rg > max(v for k, v in ops.items() if k != "Pow") and (rg != ops.get("Pow") or kind_default == "Unspecified"), "kinds:range-vs-pow",
              "a range next to `**` at equal strength must be parenthesised (range has no associativity)", file=f["file"], line=f["l"], fn=f["path"])
    rep.check(isinstance(call, int) and call < low, "kinds:call<binary", f"a function call ({call}) as operand of a binary operator must be parenthesised (weaker than every operator, min {low})", file=f["file"], line=f["l"], fn=f["path"])
    rep.check(isinstance(fn_, int) and fn_ < call, "kinds:func<call", "a lambda as argument of a call must be parenthesised", file=f["file"], line=f["l"], fn=f["path"])
    # shape of needs_parenthesis
    np = syn.fn("codegen::ast::needs_parenthesis", crate="prqlc")
    # the whole decision as a truth table over (unbound && can bind left, context vs own strength, side, own associativity):
    # formula, local names, `match` vs boolean expression and early returns are free
    import alpha as _al
    import boolfn
    An = _al.Inliner(np)
    wrong = []
    try:
        for unbound in (True, False):
            for rel in ("gt", "lt", "eq"):
                for side in ("Left", "Right", "Unspecified"):
                    for assoc in ("Left", "Right", "Unspecified"):
                        def atom(t, unbound=unbound, rel=rel, side=side, assoc=assoc):
                            t = t.replace(" ", "")
                            if t == "opt.unbound_expr":
                                return unbound
                            if t == "can_bind_left(&this.kind)":
                                return True
                            if t in ("(opt.context_strength>binding_strength(&this.kind))", "opt.context_strength>binding_strength(&this.kind)"):
                                return rel == "gt"
                            if t in ("(opt.context_strength<binding_strength(&this.kind))", "opt.context_strength<binding_strength(&this.kind)"):
                                return rel == "lt"
                            if t == "opt.binary_position":
                                return "Position::" + side
                            if t == "associativity(&this.kind)":
                                return "Position::" + assoc
                            return None
                        want = True if unbound else (True if rel == "gt" else (False if rel == "lt" else not ((side == "Left" and assoc == "Left") or (side == "Right" and assoc == "Right"))))
                        got = boolfn.ev_body(np["body"], atom, An)
                        if got != want:
                            wrong.append((unbound, rel, side, assoc, got))
        shape_ok = not wrong
    except boolfn.Unknown as e:
        shape_ok = False
        wrong = [str(e)]
    rep.check(shape_ok, "needs_parenthesis:shape", f"needs_parenthesis must be: unbound-and-can-bind-left -> parentheses; context stronger -> parentheses; weaker -> none; equal -> parentheses unless "
              f"the child's associativity equals its side; differing rows (unbound, strength, side, assoc, got): {wrong[:4]}", file=np["file"], line=np["l"], fn=np["path"])
    rep.check(shape_ok, "needs_parenthesis:assoc", "at equal strength parentheses may be dropped only when the child's associativity matches its side", file=np["file"], line=np["l"], fn=np["path"])
    # write_within raises the context to the parent's strength; Binary sets the side
    ww = syn.fn("codegen::ast::write_within", crate="prqlc")
    Aw = __import__("alpha").Inliner(ww)
    import guards as _gw
    parw = _gw.parents(ww["body"])
    asg = [assigned_value(n, parw, Aw) for n in walk(ww["body"]) if n.get("k") == "assign" and show(n["lhs"]).endswith(".context_strength")]
    rep.check(asg == ["max:binding_strength(parent)"],
              "write_within", f"write_within must raise the context strength to the parent's strength (found {asg})", file=ww["file"], line=ww["l"], fn=ww["path"])
    wk = [x for x in syn.find_fns("<ExprKind as WriteSource>::write", crate="prqlc")]
    if len(wk) != 1:
        raise AnchorMissing("<ExprKind as WriteSource>::write")
    txt = show_stmts(wk[0]["body"], maxdepth=3)
    sides = {}
    for n in walk(wk[0]["body"]):
        if n.get("k") == "assign" and show(n["lhs"]).endswith(".binary_position"):
            sides[show(n["lhs"])] = last_seg(show(n["rhs"]))
    rep.check(sides.get("opt_left.binary_position") == "Left" and sides.get("opt_right.binary_position") == "Right", "binary:sides",
              f"the left operand must be written with Position::Left and the right with Position::Right; found {sides}", file=wk[0]["file"], line=wk[0]["l"], fn=wk[0]["path"])
    # the side is meaningful only for the expression it was set for: it must be cleared before that expression's own children
    # are written (range ends, unary operands, call arguments ... do not set a side of their own)
    ew = [x for x in syn.find_fns("<Expr as WriteSource>::write", crate="prqlc") if x["file"].endswith("codegen/ast.rs")]
    if len(ew) != 1:
        raise AnchorMissing("<Expr as WriteSource>::write in codegen/ast.rs")
    seq = []
    for n in sorted((n for n in walk(ew[0]["body"]) if n.get("k") in ("call", "assign", "mcall")), key=lambda n: (n["l"], n.get("c", 0))):
        if n.get("k") == "call" and last_seg(show(n["f"])) == "needs_parenthesis":
            seq.append("decide")
        elif n.get("k") == "assign" and show(n["lhs"]) == "opt.binary_position" and last_seg(show(n["rhs"])) == "Unspecified":
            seq.append("clear")
        elif n.get("k") == "mcall" and n["m"] in ("write", "write_between") and show(n["r"]) == "self.kind":
            seq.append("children")
    first_children = seq.index("children") if "children" in seq else len(seq)
    ok = "decide" in seq and "clear" in seq[:first_children] and seq.index("decide") < seq.index("clear")
    rep.check(ok, "sides:not-inherited", f"Expr::write must decide about its own parentheses, then clear `opt.binary_position`, then write its kind (found order {seq}): otherwise the end of a range / "
              "the operand of a unary inside the right operand of `*` is taken to be in the Right position itself and `x * (a..(b ** c))` loses its inner parentheses",
              file=ew[0]["file"], line=ew[0]["l"], fn=ew[0]["path"])
    # can_bind_left covers the prefix operators that are also infix operators
    cb = syn.fn("codegen::ast::can_bind_left", crate="prqlc")
    got = set()
    for mm in macros(cb["body"], "matches"):
        for n in walk(mm["pat"]):
            if n.get("k") == "p_path" and n["p"].startswith("pr::UnOp::"):
                got.add(last_seg(n["p"]))
    # the same test spelled as a `match` that returns bool
    for mm in matches_of(cb["body"]):
        for arm in mm["arms"]:
            if show(arm["body"]) == "true":
                for n in walk(arm["pat"]):
                    if n.get("k") == "p_path" and n["p"].startswith("pr::UnOp::"):
                        got.add(last_seg(n["p"]))
    unops = syn.adt("UnOp", crate="prqlc_parser")
    binop = syn.adt("BinOp", crate="prqlc_parser")
    def spell(adt):
        out = {}
        for v in adt["variants"]:
            for a_ in v["attrs"]:
                if a_["name"] == "strum":
                    m = re.search(r'to_string\s*=\s*"([^"]*)"', a_["args"])
                    if m:
                        out[v["name"]] = m.group(1)
        return out
    us, bs = spell(unops), spell(binop)
    need = {u for u, t in us.items() if t in bs.values()}
    rep.check(need <= got, "can_bind_left", f"unary operators spelled like a binary operator ({sorted(need)}) as a call argument must be parenthesised (`f -x` is `f - x`); can_bind_left covers {sorted(got)}", file=cb["file"], line=cb["l"], fn=cb["path"])


def r4(ctx, rep):
    rep.rule("C14.R4", "literal printers keep the literal kind", floor=4)
    syn = ctx.syn
    fs = [x for x in syn.find_fns("<Literal as std::fmt::Display>::fmt", crate="prqlc_parser")] or \
         [x for x in syn.fns if x["crate"] == "prqlc_parser" and x.get("self_short") == "Literal" and x.get("trait_short") == "Display"]
    if len(fs) != 1:
        raise AnchorMissing("impl Display for Literal")
    f = fs[0]
    m = tables.first_match(f, "self")
    rows = {}
    for head, g, body, line, alt in tables.match_rows(m):
        if isinstance(head, str):
            rows[last_seg(head)] = (body, line)
    # float: must print with {:?} (keeps `.0` / exponent) and be finite-guarded elsewhere
    fb = rows.get("Float")
    fmt = [lit_val(mm["a"][1]) for mm in macros(fb[0], "write") if len(mm.get("a", [])) > 1] if fb else []
    rep.check(bool(fmt) and all(isinstance(x, str) and (":?" in x or "." in x.strip("{}")) for x in fmt), "float",
              f"Literal::Float is printed with {fmt}: Rust's `{{}}` prints 1.0 as `1`, which re-lexes as an Integer (the program's literal changes kind)",
              file=f["file"], line=fb[1] if fb else f["l"], fn=f["path"])
    # raw string: printed without escaping, with the r prefix
    rb = rows.get("RawString")
    txt = show_stmts(rb[0], maxdepth=10) if rb else ""
    rep.check(rb is not None and "escape" not in txt and "'r{}'" in txt and "quote_string(s)" in txt, "rawstring",
              f"Literal::RawString must be printed as r<quoted content> without any escaping (the lexer does not decode escapes in raw strings); found `{txt}`",
              file=f["file"], line=rb[1] if rb else f["l"], fn=f["path"])
    sb = rows.get("String")
    txt = show_stmts(sb[0], maxdepth=10) if sb else ""
    rep.check(sb is not None and "quote_string(escape_all_except_quotes(s).as_str())" in txt, "string",
              "Literal::String must be printed escaped and then quoted", file=f["file"], line=sb[1] if sb else f["l"], fn=f["path"])
    for kind, pref in (("Date", "@"), ("Time", "@"), ("Timestamp", "@")):
        b = rows.get(kind)
        rep.check(b is not None and "'@{inner}'" in show_stmts(b[0], maxdepth=8), f"date:{kind}", f"Literal::{kind} must be printed with the @ prefix", file=f["file"], line=b[1] if b else f["l"], fn=f["path"])
    for kind, word in (("Null", "null"),):
        b = rows.get(kind)
        rep.check(b is not None and f"'{word}'" in show_stmts(b[0], maxdepth=8), f"word:{kind}", f"Literal::{kind} must be printed as `{word}`", file=f["file"], line=f["l"], fn=f["path"])


def r5(ctx, rep):
    rep.rule("C14.R5", "printed string escapes are decoded by the lexer to the same character", floor=9)
    syn = ctx.syn
    pe = syn.fn("lexer::parse_escape_sequence", crate="prqlc_parser")
    inner = None
    for m in matches_of(pe["body"]):
        if show(m["e"]) == "next_ch":
            inner = m
    if inner is None:
        raise AnchorMissing("parse_escape_sequence: match next_ch")
    lex = {}
    has_u = False
    quote_arm = False
    for arm in inner["arms"]:
        for alt in pat_alts(arm["pat"]):
            h = pat_head(alt)
            if isinstance(h, tuple) and h[0] == "lit":
                body = arm["body"]
                v = lit_val(body) if body.get("k") == "lit" else None
                if h[1] == "u" and arm.get("guard") is not None and "'{'" in show(arm["guard"]):
                    has_u = "from_str_radix(&hex, 16)" in show_stmts(body, maxdepth=14) or "from_str_radix" in show(body, maxdepth=14)
                else:
                    lex[h[1]] = v
            if alt.get("k") == "p_ident" and arm.get("guard") is not None and show(arm["guard"]) == "(c == quote_char)":
                quote_arm = show(arm["body"]) == "quote_char"
    # what Rust's char::escape_default can emit (besides quotes, which the printer leaves alone)
    expected = {"t": "\t", "r": "\r", "n": "\n", "\\": "\\"}
    ea = syn.fn("lr::escape_all_except_quotes", crate="prqlc_parser")
    # the printer is evaluated on representative characters (it looks at its input only through comparisons with character literals) and
    # what it prints is decoded with the lexer's own escape table: printer and lexer must compose to the identity, whatever the
    # printer is spelled like (if / match / escape_default / escape_debug ..)
    import strfn
    bad = []
    for ch in strfn.REPRESENTATIVES:
        try:
            out = strfn.eval_loop(ea["body"], ch)
        except strfn.Unreadable as e:
            bad.append(f"unreadable ({e})")
            break
        if ch in ('"', "'"):
            if out != ch:
                bad.append(f"{ch!r} printed as {out!r} (quotes are the business of quote_string, which picks the delimiter)")
            continue
        m_ = re.fullmatch(r"\\u\{([0-9a-fA-F]+)\}", out)
        if out == ch and ch != "\\":
            continue
        if len(out) == 2 and out[0] == "\\" and lex.get(out[1]) == ch:
            continue
        if m_ and has_u and int(m_.group(1), 16) == ord(ch):
            continue
        bad.append(f"{ch!r} printed as {out!r}, which the lexer does not decode back to it")
    rep.check(not bad, "printer:shape", f"escape_all_except_quotes followed by the lexer's escape decoding must be the identity: {bad[:3]}", file=ea["file"], line=ea["l"], fn=ea["path"])
    for e, ch in expected.items():
        rep.check(lex.get(e) == ch, f"escape:\\{e}", f"the printer emits `\\{e}` for {ch!r} but the lexer decodes `\\{e}` to {lex.get(e)!r}", file=pe["file"], line=pe["l"], fn=pe["path"])
    rep.check(has_u, "escape:\\u{..}", "the printer emits \\u{hex} for non-ASCII/control characters; the lexer must decode \\u{hex} as a code point", file=pe["file"], line=pe["l"], fn=pe["path"])
    rep.check(quote_arm, "escape:quote", "an escaped delimiter quote must decode to the quote itself", file=pe["file"], line=pe["l"], fn=pe["path"])
    # interpolation printer
    di = syn.fn("codegen::ast::display_interpolation", crate="prqlc")
    # the literal parts of an interpolated string: the text appended for `InterpolateItem::String(s)` is evaluated on one-character
    # inputs (replace chains are applied in order, a per-character loop is followed)
    want = {"\\": "\\\\", '"': '\\"', "{": "{{", "}": "}}", "a": "a", "é": "é", "'": "'"}
    arm = None
    for m in matches_of(di["body"]):
        for a_ in m["arms"]:
            if "InterpolateItem::String" in show(a_["pat"], maxdepth=6):
                arm = a_
    got = {}
    if arm is not None:
        var = [x["n"] for x in walk(arm["pat"]) if x.get("k") == "p_ident"]
        var = var[0] if var else None
        for ch in want:
            val = None
            try:
                chains = [n for n in walk(arm["body"]) if n.get("k") == "mcall" and n["m"] == "replace" and not (strfn and any(p_.get("k") == "mcall" and p_["m"] == "replace" and p_["r"] is n for p_ in walk(arm["body"])))]
                loops_ = [n for n in walk(arm["body"]) if n.get("k") == "for" and var and (var + ".chars()") in show(n["e"])]
                if chains:
                    val = strfn.eval_chain(chains[0], var, ch)
                elif loops_:
                    names_ = [x["n"] for x in walk(loops_[0]["pat"]) if x.get("k") == "p_ident"]
                    accs = [show(x["r"]) for x in walk(loops_[0]["body"]) if x.get("k") == "mcall" and x["m"] in ("push", "push_str", "extend")] + \
                           [show(x["lhs"]) for x in walk(loops_[0]["body"]) if x.get("k") == "bin" and x["op"] == "+="]
                    val = strfn._run(loops_[0]["body"]["s"], accs[0], names_[0], ch) if accs and names_ else None
                elif var and show(arm["body"], maxdepth=6).replace(" ", "") in (f"r+={var}", f"r.push_str({var})", f"{{r+={var}}}"):
                    val = ch
            except strfn.Unreadable:
                val = None
            got[ch] = val
    for a, b in want.items():
        rep.check(got.get(a) == b, f"interp:{a}", f"display_interpolation must print {a!r} as {b!r} (found {got.get(a)!r}): otherwise the text re-lexes differently "
                  "(a bare backslash starts an escape, a quote ends the string, a brace starts an expression)", file=di["file"], line=di["l"], fn=di["path"])
    # delimiter is the double quote
    rep.check("r += '\"'" in show_stmts(di["body"], maxdepth=6).replace("'\\\"'", "'\"'") or '"\\""' in str(strs(di["body"])) or '"' in strs(di["body"]), "interp:delimiter", "interpolated strings are delimited by double quotes", file=di["file"], line=di["l"], fn=di["path"])


def r7(ctx, rep):
    rep.rule("C14.R7", "printed operator spellings re-lex to the same operator", floor=21)
    syn = ctx.syn
    binop = syn.adt("BinOp", crate="prqlc_parser")
    unop = syn.adt("UnOp", crate="prqlc_parser")

    def spell(adt):
        out = {}
        for v in adt["variants"]:
            for a_ in v["attrs"]:
                if a_["name"] == "strum":
                    m = re.search(r'to_string\s*=\s*"([^"]*)"', a_["args"])
                    if m:
                        out[v["name"]] = m.group(1)
        return out
    mc, multi = tables.lexer_multi_char_ops(syn)
    tk = syn.fn("lexer::token", crate="prqlc_parser")
    ctrl_chars = ""
    for c in calls(tk["body"], "one_of"):
        v = lit_val(c["a"][0])
        if isinstance(v, str) and len(v) > 5:
            ctrl_chars = v
    # parser side: which token / control char yields which operator
    tok2op, chr2op = {}, {}
    for name in ("operator_unary", "operator_pow", "operator_mul", "operator_add", "operator_compare", "operator_and", "operator_or", "operator_coalesce"):
        g = syn.fn("parser::expr::" + name, crate="prqlc_parser")
        for mm in macros(g["body"], "select_ref"):
            for arm in mm.get("arms", []):
                kinds = [last_seg(n["p"]) for n in walk(arm["pat"]) if n.get("k") in ("p_path", "p_ts", "p_struct") and "TokenKind::" in n["p"]]
                tgt = show(arm["body"])
                for k in kinds:
                    tok2op.setdefault(k, set()).add(tgt)
        for n in walk(g["body"]):
            if n.get("k") == "mcall" and n["m"] == "to" and n["r"].get("k") == "call" and last_seg(show(n["r"]["f"])) == "ctrl":
                chr2op.setdefault(lit_val(n["r"]["a"][0]), set()).add(show(n["a"][0]))
    for adt, pre in ((binop, "BinOp"), (unop, "UnOp")):
        sp = spell(adt)
        for v in adt["variants"]:
            t = sp.get(v["name"])
            key = f"relex:{pre}::{v['name']}"
            if t is None:
                rep.bad(key, f"{pre}::{v['name']} has no #[strum(to_string)] spelling", file=adt["file"], line=v["l"])
                continue
            want = f"{pre}::{v['name']}"
            if len(t) > 1:
                k = multi.get(t)
                rep.check(k is not None and want in tok2op.get(k, ()), key,
                          f"{want} is printed as `{t}`; the lexer maps `{t}` to {k} and the parser maps that token to {sorted(tok2op.get(k, []))}", file=adt["file"], line=v["l"])
            else:
                rep.check(t in ctrl_chars and want in chr2op.get(t, ()) and t not in multi, key,
                          f"{want} is printed as `{t}`; control characters are `{ctrl_chars}` and the parser maps `{t}` to {sorted(chr2op.get(t, []))}", file=adt["file"], line=v["l"])
    # binary operators are printed with spaces around them, unary without
    wk = syn.find_fns("<ExprKind as WriteSource>::write", crate="prqlc")[0]
    for n in walk(wk["body"]):
        if n.get("k") == "match":
            for arm in n["arms"]:
                hs = [pat_head(a) for a in pat_alts(arm["pat"])]
                if any(isinstance(h, str) and last_seg(h) == "Binary" for h in hs):
                    seq = [show(s) for s in arm["body"].get("s", [])]
                    i = [j for j, s in enumerate(seq) if "op.to_string()" in s]
                    ok = bool(i) and seq[i[0] - 1] == "(r += opt.consume(' ')?)" and seq[i[0] + 1] == "(r += opt.consume(' ')?)"
                    rep.check(ok, "spacing:binary", "binary operators must be printed with a space on both sides (`a - -b`, `a / /..` would otherwise fuse)", file=wk["file"], line=arm["l"], fn=wk["path"])


NAME_FIELDS = {"var_def.name", "type_def.name", "module_def.name", "param.name", "alias"}


def r8(ctx, rep):
    rep.rule("C14.R8", "declared and referenced names are written through an identifier printer", floor=8)
    syn = ctx.syn
    for f in syn.fns_in_file("codegen/ast.rs") + syn.fns_in_file("codegen/types.rs"):
        if "body" not in f or f["crate"] != "prqlc":
            continue
        par = None
        for n in walk(f["body"]):
            # a name field used as a format!/consume argument must be wrapped
            if n.get("k") == "macro" and n["n"] == "format" and n.get("a"):
                fmts = lit_val(n["a"][0]) if n["a"] else None
                for a in n["a"][1:]:
                    t = show(a)
                    if t in NAME_FIELDS or t.lstrip("&") in NAME_FIELDS:
                        rep.bad(f"raw-name:{f['path']}:{t}", f"`{t}` is interpolated into the output text without write_ident_part: a name that needs backticks (spaces, keywords) is printed bare",
                                file=f["file"], line=n["l"], fn=f["path"])
                    elif t.startswith("write_ident_part("):
                        rep.ok(f"name:{f['path']}:{t}")
                # inline `{var_def.name}` captures
                if isinstance(fmts, str):
                    for cap in re.findall(r"\{([a-z_\.]+)\}", fmts):
                        if cap in NAME_FIELDS:
                            rep.bad(f"raw-name:{f['path']}:{cap}", f"`{{{cap}}}` is interpolated into the output text without write_ident_part", file=f["file"], line=n["l"], fn=f["path"])
            if n.get("k") == "mcall" and n["m"] == "consume" and n["a"]:
                t = show(n["a"][0]).lstrip("&")
                if t in NAME_FIELDS:
                    rep.bad(f"raw-name:{f['path']}:{t}", f"`{t}` is written without write_ident_part", file=f["file"], line=n["l"], fn=f["path"])
                elif t.startswith("write_ident_part("):
                    rep.ok(f"name:{f['path']}:{t}")
            if n.get("k") == "bin" and n["op"] == "+=" and show(n["rhs"]).lstrip("&").startswith("write_ident_part("):
                rep.ok(f"name:{f['path']}:{show(n['rhs']).lstrip('&')}")
            if n.get("k") == "bin" and n["op"] == "+=" and show(n["rhs"]).lstrip("&") in ("name", "alias", "ident_part", "field_name"):
                rep.bad(f"raw-name:{f['path']}:{show(n['rhs']).lstrip('&')}", f"`{show(n)}` appends a name to the output without write_ident_part: a name that needs backticks is printed bare",
                        file=f["file"], line=n["l"], fn=f["path"])


def r9(ctx, rep):
    rep.rule("C14.R9", "type syntax is printed the way the type parser reads it; optional parts of a declaration are printed whenever present; layout state has a fixed set of writers", floor=6)
    syn = ctx.syn
    # (a) tuple wildcard: the parser reads `..` followed by the type
    tf = [x for x in syn.find_fns("<TyTupleField as WriteSource>::write", crate="prqlc")]
    if len(tf) != 1:
        raise AnchorMissing("<TyTupleField as WriteSource>::write")
    fmts = [lit_val(m["a"][0]) for m in macros(tf[0]["body"], "format") if m.get("a")]
    wild = [x for x in fmts if isinstance(x, str) and ".." in x]
    rep.check(wild == ["..{}"], "type:wildcard", f"a tuple wildcard with a type is read as `..T` (Range token, then the type); it is printed with format {wild}", file=tf[0]["file"], line=tf[0]["l"], fn=tf[0]["path"])
    # (a') a field without a type: the parser reads the control character `c` of `ctrl('c').to(None)` in the tuple-field alternative; the writer must print that character
    tp = [x for x in syn.fns if x["crate"] == "prqlc_parser" and x["file"].endswith("parser/types.rs") and "body" in x]
    untyped = set()
    for x in tp:
        for n in walk(x["body"]):
            if n.get("k") == "mcall" and n["m"] == "to" and n["a"] and show(n["a"][0]) == "None" and n["r"].get("k") == "call" and last_seg(show(n["r"]["f"])) == "ctrl":
                untyped.add(lit_val(n["r"]["a"][0]))
    single = None
    for m_ in matches_of(tf[0]["body"]):
        for arm in m_["arms"]:
            if last_seg(str(pat_head(arm["pat"]))) == "Single":
                single = arm
    written = set()
    if single is not None:
        for n in walk(single["body"]):
            if n.get("k") == "if" and n["c"].get("k") == "let" and "Some" in show(n["c"]["pat"]) and n.get("e") is not None:
                written |= {v for v in strs(n["e"]) if v.strip()}
    rep.check(len(untyped) == 1 and written == untyped, "type:untyped-field", f"a tuple type field without a type is read as {sorted(untyped)} (`ctrl(..).to(None)` in parser/types.rs) and printed as {sorted(written)}",
              file=tf[0]["file"], line=tf[0]["l"], fn=tf[0]["path"])
    # (b) VarDef: every arm that does not print the type annotation is unreachable when there is one
    sw = [x for x in syn.find_fns("<Stmt as WriteSource>::write", crate="prqlc") if x["file"].endswith("codegen/ast.rs")]
    if len(sw) != 1:
        raise AnchorMissing("<Stmt as WriteSource>::write")
    vm = None
    for m in matches_of(sw[0]["body"]):
        if show(m["e"]) == "var_def.kind":
            vm = m
    if vm is None:
        raise AnchorMissing("Stmt::write: match var_def.kind")
    covered = False
    for i, arm in enumerate(vm["arms"]):
        writes_ty = any(n.get("k") == "field" and n.get("f") == "ty" and show(n["e"]) == "var_def" for n in walk(arm["body"]))
        g = arm.get("guard")
        gt = show(g, maxdepth=8) if g is not None else None
        if writes_ty:
            if g is None or "var_def.ty.is_some()" in [show(x, maxdepth=6) for x in disj_of(g)]:
                covered = True
        else:
            rep.check(covered, f"vardef:type-annotation:arm{i}", f"arm {i} of the VarDef writer (`{show(arm['pat'])}`{' if ' + gt if gt else ''}) does not print `var_def.ty` and can be reached when a type annotation is present: "
                      "`let x <int> = 1` loses its annotation", file=sw[0]["file"], line=arm["l"], fn=sw[0]["path"])
    # (c) layout state (`unbound_expr`, `context_strength`): the set of writers, by function and value
    writers = set()
    for f in syn.fns_in_file("codegen/ast.rs") + syn.fns_in_file("codegen/mod.rs") + syn.fns_in_file("codegen/types.rs"):
        if "body" not in f or f["crate"] != "prqlc":
            continue
        Af = None
        for n in walk(f["body"]):
            if n.get("k") == "assign" and show(n["lhs"]).split(".")[-1] in ("unbound_expr", "context_strength"):
                if Af is None:
                    Af = __import__("alpha").Inliner(f)
                    parf = __import__("guards").parents(f["body"])
                writers.add((f["path"].split("::", 1)[1], show(n["lhs"]).split(".")[-1], assigned_value(n, parf, Af)))
    want = {("codegen::ast::write_within", "context_strength", "max:binding_strength(parent)"),
            ("codegen::ast::<ExprKind as WriteSource>::write", "context_strength", "10"),     # default value of a named parameter: read like an argument
            ("codegen::ast::<Expr as WriteSource>::write", "unbound_expr", "false"),          # after `alias = `
            ("codegen::ast::<ExprKind as WriteSource>::write", "unbound_expr", "true"),       # arguments of a function call
            ("codegen::WriteSource::write_between", "context_strength", "0"),                 # inside brackets
            ("codegen::ast::<Expr as WriteSource>::write", "context_strength", "0"),          # inside the parentheses of `(alias = expr)` (R14)
            ("codegen::ast::<Expr as WriteSource>::write", "unbound_expr", "false"),
            ("codegen::ast::<Stmt as WriteSource>::write", "context_strength", "0"),          # inside the parentheses of `@( .. )` (R14)
            ("codegen::ast::<SwitchCase as WriteSource>::write", "context_strength", "max:8"),   # case arms are read as calls (R14)
            ("codegen::WriteSource::write_between", "unbound_expr", "false")}
    for w in sorted(writers - want):
        rep.bad(f"layout-writer:{w[0]}:{w[1]}={w[2]}", f"{w[0]} sets `{w[1]} = {w[2]}`: this flag decides whether a leading unary operator needs parentheses (`f (-a) + b`) / which parentheses are dropped; "
                "a new writer needs the same argument as the reviewed ones", file=None, line=None, fn=w[0])
    for w in sorted(want - writers):
        rep.bad(f"layout-writer-missing:{w[0]}:{w[1]}={w[2]}", f"the reviewed writer `{w[1]} = {w[2]}` in {w[0]} is gone")
    for w in sorted(want & writers):
        rep.ok(f"layout-writer:{w[0]}:{w[1]}={w[2]}")


def assigned_value(n, par, A):
    """Canonical value of the assignment `n` (lhs = rhs): `max:<v>` for "raise lhs to at least v" in any spelling (`x = x.max(v)`, `x = v.max(x)`,
    `x = max(x, v)`, `if v > x { x = v }`, `if x < v { x = v }`), else the rendered right-hand side (locals inlined)."""
    L = show(n["lhs"])
    r = n["rhs"]
    if r.get("k") == "mcall" and r["m"] == "max" and len(r["a"]) == 1:
        a, b = show(r["r"]), show(r["a"][0])
        if a == L:
            return "max:" + A.show(r["a"][0])
        if b == L:
            return "max:" + A.show(r["r"])
    if r.get("k") == "call" and last_seg(show(r["f"])) == "max" and len(r["a"]) == 2:
        a, b = show(r["a"][0]), show(r["a"][1])
        if a == L:
            return "max:" + A.show(r["a"][1])
        if b == L:
            return "max:" + A.show(r["a"][0])
    p_ = par.get(id(n))
    if p_ is not None and p_.get("k") == "block" and len(p_["s"]) == 1:
        q = par.get(id(p_))
        if q is not None and q.get("k") == "if" and q.get("e") is None and q["t"] is p_ and q["c"].get("k") == "bin" and q["c"]["op"] in (">", "<", ">=", "<="):
            lo, hi = (q["c"]["rhs"], q["c"]["lhs"]) if q["c"]["op"] in (">", ">=") else (q["c"]["lhs"], q["c"]["rhs"])
            if show(lo) == L and show(hi) == show(r):
                return "max:" + A.show(r)
    return A.show(r)


def r10(ctx, rep):
    rep.rule("C14.R10", "function definitions and interpolations are printed so that they read back: default values like arguments, a function body that is a function in parentheses, every field of an interpolated item", floor=3)
    syn = ctx.syn
    wk = [x for x in syn.find_fns("<ExprKind as WriteSource>::write", crate="prqlc")]
    if len(wk) != 1:
        raise AnchorMissing("<ExprKind as WriteSource>::write")
    arm = None
    for m in matches_of(wk[0]["body"]):
        for a in m["arms"]:
            if show(a["pat"]).startswith("Func("):
                arm = a
    if arm is None:
        raise AnchorMissing("ExprKind::write: arm Func(c)")
    bs = syn.fn("codegen::ast::binding_strength", crate="prqlc")
    call_strength = None
    for m in matches_of(bs["body"]):
        for a in m["arms"]:
            if "FuncCall" in show(a["pat"], maxdepth=5) and isinstance(lit_val(a["body"]), int):
                call_strength = lit_val(a["body"])
    # default values
    dv = [n for n in walk(arm["body"]) if n.get("k") == "mcall" and n["m"] == "write" and "default" in show(n["r"], maxdepth=6)]
    ok = False
    for n in dv:
        o = show(n["a"][0]) if n["a"] else ""
        sets = {show(x["lhs"]).split(".")[-1]: show(x["rhs"]) for x in walk(arm["body"]) if x.get("k") == "assign" and show(x["lhs"]).startswith(o + ".")}
        ok = sets.get("unbound_expr") == "true" and sets.get("context_strength", "").isdigit() and call_strength is not None and int(sets["context_strength"]) >= call_strength
    rep.check(ok, "func:default-value", f"the default value of a named parameter is read by the parser as an expression that is not a call: it must be written with the context of a call argument "
              f"(context_strength >= {call_strength}, unbound_expr) so that `a:(g 1)` keeps its parentheses", file=wk[0]["file"], line=arm["l"], fn=wk[0]["path"])
    # body that is itself a function
    okb = False
    for n in walk(arm["body"]):
        if n.get("k") == "if" and n["c"].get("k") == "macro" and n["c"]["n"] == "matches" and "body" in show(n["c"]["a"][0]) and "Func" in show(n["c"].get("pat"), maxdepth=4):
            okb = any(x.get("k") == "mcall" and x["m"] == "write_between" and lit_val(x["a"][0]) == "(" for x in walk(n["t"]))
    rep.check(okb, "func:body-is-func", "a function whose body is a function must write that body in parentheses (`x -> (y -> x + y)`): the parser reads a body as a call or an expression",
              file=wk[0]["file"], line=arm["l"], fn=wk[0]["path"])
    # interpolation items: every field of InterpolateItem::Expr is printed
    di = syn.fn("codegen::ast::display_interpolation", crate="prqlc")
    adt = syn.adt("InterpolateItem", crate="prqlc_parser", file_suffix="generic.rs")
    fields = []
    for v in adt.get("variants", []):
        if v["name"] == "Expr":
            fields = [f["name"] for f in v["fields"]]
    okf = False
    for m in matches_of(di["body"]):
        for a in m["arms"]:
            for alt in pat_alts(a["pat"]):
                if alt.get("k") == "p_struct" and last_seg(alt["p"]) == "Expr":
                    bound = {x[0]: x[1] for x in alt["f"]}
                    used = [f for f in fields if f in bound and any(y.get("k") == "path" and y["p"] == show(bound[f]) for y in walk(a["body"]))]
                    okf = bool(fields) and used == fields and not alt.get("rest")
    rep.check(okf, "interpolation:fields", f"display_interpolation must print every field of InterpolateItem::Expr ({fields}); a `..` pattern drops the format specification of `f\"{{x:0.2}}\"`",
              file=di["file"], line=di["l"], fn=di["path"])


def disj_of(c):
    if c is not None and c.get("k") == "bin" and c["op"] == "||":
        return disj_of(c["lhs"]) + disj_of(c["rhs"])
    if c is not None and c.get("k") == "paren":
        return disj_of(c["e"])
    return [c]


def r11(ctx, rep):
    rep.rule("C14.R11", "every operand of an open-syntax expression kind (range, binary, unary, call) is written through write_within, which carries the parent's strength", floor=4)
    syn = ctx.syn
    f = [x for x in syn.fns if x["crate"] == "prqlc" and x["file"].endswith("codegen/ast.rs") and x["name"] == "write" and "ExprKind" in (x.get("self_short") or x["path"])]
    if not f:
        raise AnchorMissing("<pr::ExprKind as WriteSource>::write")
    f = f[0]
    # the arms of `match &self`; how many operands each kind has (from the parser's definition of the kind)
    want = {"Range": 2, "Binary": 2, "Unary": 1, "FuncCall": 3}
    seen = {}
    for m_ in matches_of(f["body"]):
        for arm in m_["arms"]:
            h = last_seg(str(pat_head(arm["pat"])))
            if h not in want:
                continue
            # (or through a private helper of the same file that hands its first two parameters to write_within in that order)
            wrappers = set()
            for h_ in syn.fns:
                if h_["crate"] == "prqlc" and h_["file"] == f["file"] and "body" in h_ and h_["name"] != "write_within" and len(h_.get("params", [])) >= 2:
                    prm_ = [show(x.get("pat", x)).split(":")[0].strip() if isinstance(x, dict) and "pat" in x else (x.get("name") if isinstance(x, dict) else str(x).split(":")[0].strip()) for x in h_["params"]]
                    if any(c_.get("k") == "call" and last_seg(show(c_["f"])) == "write_within" and len(c_["a"]) >= 2 and show(c_["a"][0]) == prm_[0] and show(c_["a"][1]) == prm_[1] for c_ in walk(h_["body"])):
                        wrappers.add(h_["name"])
            ww = [n for n in walk(arm["body"]) if n.get("k") == "call" and last_seg(show(n["f"])) in ({"write_within"} | wrappers)]
            direct = [n for n in walk(arm["body"]) if n.get("k") == "mcall" and n["m"] == "write" and not show(n["r"]).startswith("opt")]
            seen[h] = (len(ww), [show(n, maxdepth=4) for n in direct])
            second = [show(n["a"][1]) for n in ww if len(n["a"]) >= 2]
            rep.check(len(ww) >= want[h] and not direct and all(a in ("self", "&self") for a in second), f"operands-within:{h}",
                      f"the {h} arm writes {len(ww)} operand(s) through write_within(.., self, ..) (expected {want[h]}) and {[show(n, maxdepth=4) for n in direct]} directly: a directly written operand is "
                      "not parenthesised against this kind's strength (`1..(size + 1)` is printed `1..size + 1`, which reads `(1..size) + 1`)", file=f["file"], line=arm["l"], fn=f["path"])
    rep.check(set(seen) == set(want), "arms", f"expected arms for {sorted(want)} in ExprKind::write, found {sorted(seen)}", file=f["file"], line=f["l"], fn=f["path"])


def r12(ctx, rep):
    rep.rule("C14.R12", "text taken from the syntax tree (a name) is written through write_ident_part; a bare variable given to the line writer is the output of another writer", floor=8)
    import guards
    syn = ctx.syn
    n_sites = 0
    for f in syn.fns:
        if f["crate"] != "prqlc" or "/codegen/" not in f["file"] or "body" not in f:
            continue
        par = guards.parents(f["body"])
        prm = [show(x.get("pat", x)).split(":")[0].strip() if isinstance(x, dict) and "pat" in x else (x.get("name") if isinstance(x, dict) else str(x).split(":")[0].strip()) for x in f.get("params", [])]
        for n in walk(f["body"]):
            if not (n.get("k") == "mcall" and n["m"] == "consume" and n["a"]):
                continue
            a = n["a"][0]
            while a.get("k") in ("ref", "paren"):
                a = a["e"]
            if a.get("k") != "path" or "::" in a["p"]:
                continue
            n_sites += 1
            d = guards.visible_def_nodes(par, n, a["p"])
            if d is not None and d.get("init") is not None:
                init = show(d["init"], maxdepth=6)
                ok = bool(re.search(r"write_within\(|\.write\(|\.write_between\(|write_ident_part\(|display_|\.to_string\(\)|format!", init))
                why = f"bound to `{init[:60]}`"
            elif a["p"] in prm:
                ok, why = True, "a parameter of the writer (prefix / suffix text)"
            else:
                ok, why = False, "bound by a pattern over the syntax tree (a loop or closure variable)"
            rep.check(ok, f"raw-name:{f['name']}:{a['p']}", f"`{show(n, maxdepth=4)}` in {f['path']} writes `{a['p']}`, {why}: a name that is not a plain identifier (`my arg`, a keyword) must be "
                      "written in backticks by write_ident_part, otherwise the formatted program does not parse or means something else", file=f["file"], line=n["l"], fn=f["path"])
    rep.check(n_sites >= 8, "sites", f"expected >= 8 bare variables handed to `consume` in codegen, found {n_sites}")


def r13(ctx, rep):
    rep.rule("C14.R13", "a writer that prints the parts of an expression instead of the expression itself does so only when the expression carries no alias", floor=1)
    syn = ctx.syn
    n = 0
    for f in syn.fns:
        if f["crate"] != "prqlc" or "/codegen/" not in f["file"] or "body" not in f:
            continue
        if "ExprKind" in (f.get("self_short") or "") or (f.get("self_short") == "Expr"):
            continue        # the writers of Expr / ExprKind themselves: Expr::write prints the alias, then delegates to the kind
        for m_ in matches_of(f["body"]):
            sc = show(m_["e"])
            mm = re.match(r"^&?(\w+)\.kind$", sc)
            if not mm:
                continue
            v = mm.group(1)
            for arm in m_["arms"]:
                h = pat_head(arm["pat"])
                if not isinstance(h, str) or h == "_" or "ExprKind" not in h:
                    continue
                body_txt = show_stmts(arm["body"], maxdepth=12) if arm["body"].get("k") == "block" else show(arm["body"], maxdepth=12)
                if re.search(r"\b" + v + r"\.write(_between)?\(", body_txt):
                    continue        # the whole expression is written
                n += 1
                g = show(arm["guard"]) if arm.get("guard") is not None else ""
                rep.check(f"{v}.alias.is_none()" in g, f"parts-only-without-alias:{f['name']}:{last_seg(h)}", f"the `{last_seg(h)}` arm of `match {sc}` in {f['path']} writes the parts of `{v}` without "
                          f"calling `{v}.write`: `{v}.alias` is then dropped (`x = (from a | take 3)` was formatted as `from a` / `take 3`); the arm must be guarded by `{v}.alias.is_none()`",
                          file=f["file"], line=arm["l"], fn=f["path"])
    rep.check(n >= 1, "sites", f"expected the Main/Into arm of Stmt::write that unwraps a pipeline into lines, found {n} such arm(s)")


def r14(ctx, rep):
    rep.rule("C14.R14", "constructs that exist only inside parentheses, or only escaped, are written that way (defects found by probing the unchanged tree, findings_detail/c14_hunt)", floor=8)
    syn = ctx.syn
    cg_fns = [x for x in syn.fns if x["crate"] == "prqlc" and x["file"].endswith("codegen/ast.rs") and "body" in x]

    def fn_(name, self_part=None):
        c = [x for x in cg_fns if x["name"] == name and (self_part is None or self_part in (x.get("self_short") or x["path"]))]
        if len(c) != 1:
            raise AnchorMissing(f"codegen/ast.rs: {self_part or ''}::{name} (found {len(c)})")
        return c[0]
    ew = [x for x in cg_fns if x["name"] == "write" and (x.get("self_short") == "Expr" or "<Expr as" in x["path"])]
    if len(ew) != 1:
        raise AnchorMissing("<pr::Expr as WriteSource>::write")
    ew = ew[0]
    # (1) an aliased operand of an operator is written `(alias = expr)`
    ok = any(n.get("k") == "if" and "alias" in show(n["c"], maxdepth=8) and "context_strength" in show(n["c"], maxdepth=8)
             and any(x.get("k") == "return" for x in walk(n["t"])) and any("(" in str(v) for v in strs(n["t"])) for n in walk(ew["body"]))
    rep.check(ok, "alias-on-operand", "Expr::write must parenthesise an aliased expression that is the operand of an operator (a test of `self.alias` together with `opt.context_strength` that returns "
              "`(alias = expr)`): `(a = 1) + 2` was printed `a = 1 + 2`, which does not parse", file=ew["file"], line=ew["l"], fn=ew["path"])
    kw = [x for x in cg_fns if x["name"] == "write" and "ExprKind" in (x.get("self_short") or x["path"])][0]
    arms = {last_seg(str(pat_head(a["pat"]))): a for m_ in matches_of(kw["body"]) for a in m_["arms"]}
    # (2) named parameters print their type like positional ones
    fa = arms.get("Func")
    loops = [n for n in walk(fa["body"]) if n.get("k") == "for"] if fa else []
    named = [n for n in loops if "named_params" in show(n.get("e", n.get("iter")), maxdepth=6)]
    posit = [n for n in loops if re.search(r"\.params\b", show(n.get("e", n.get("iter")), maxdepth=6)) and "named_params" not in show(n.get("e", n.get("iter")), maxdepth=6)]
    has_ty = lambda lp: any(x.get("k") == "field" and x.get("f") == "ty" for x in walk(lp["body"]))
    rep.check(len(named) == 1 and len(posit) == 1 and has_ty(posit[0]) and has_ty(named[0]), "named-param-type", "the Func arm writes `param.ty` for positional parameters; it must do so for named "
              "parameters too (`func y <int>:1 -> y` lost `<int>`)", file=kw["file"], line=fa["l"] if fa else kw["l"], fn=kw["path"])
    # (7) a parameter before `..`
    ra = arms.get("Range")
    ok = ra is not None and any(x.get("k") in ("p_ts", "p_path", "path") and last_seg(x.get("p", "")) == "Param" for x in walk(ra["body"]))
    # .. whenever the start is a parameter, whatever else holds (an open end `($a)..` is no exception: `$a..` lexes as one parameter, too)
    if ok:
        import boolfn
        import alpha
        A_ = alpha.Inliner(kw)
        conds = [n for n in walk(ra["body"]) if n.get("k") == "if" and n["c"].get("k") != "let" and any(x.get("k") in ("p_ts", "p_path", "path") and last_seg(x.get("p", "")) == "Param" for x in walk(n["c"]))]
        ok = bool(conds)
        for n in conds:
            try:
                tbl = boolfn.rows(n["c"], A_, lambda t: "Param" if re.fullmatch(r"[\w\.]*\bkind", t.lstrip("&*")) else None)
                ok = ok and all(v for _, v in tbl)
            except boolfn.Unknown:
                ok = False
    rep.check(ok, "param-before-range", "the Range arm must set a parameter that starts the range apart (`($a)..5`, and `($a)..` too) under no further condition: the lexer reads `$a..5` as ONE parameter named `a..5`",
              file=kw["file"], line=ra["l"] if ra else kw["l"], fn=kw["path"])
    # (8, 9) everything inside an interpolated string literal is escaped
    di = fn_("display_interpolation")
    ea = [a for m_ in matches_of(di["body"]) for a in m_["arms"] if "Expr" in show(a["pat"]) and "InterpolateItem" in show(a["pat"])]
    esc_calls = 0
    if ea:
        escapers = {show(st["pat"]) for st in walk(di["body"]) if st.get("k") == "local" and (st.get("init") or {}).get("k") == "closure" and "replace(" in show(st["init"], maxdepth=10)}
        for x in walk(ea[0]["body"]):
            if x.get("k") == "call" and show(x["f"]) in escapers:
                esc_calls += 1
            if x.get("k") == "mcall" and x["m"] == "replace" and x["a"] and lit_val(x["a"][0]) == '"':
                esc_calls += 1
    rep.check(bool(ea) and esc_calls >= 2, "interpolation-escaped", f"display_interpolation writes the expression and the format of `{{expr:format}}` into a double-quoted literal: both must have `\\` and `\"` escaped "
              f"(found {esc_calls} escaped part(s)); `f\"{{a:\\\"}}\"` was printed `f\"{{a:\"}}\"`", file=di["file"], line=di["l"], fn=di["path"])
    # (4) case arms are read as call-level expressions
    sw = [x for x in cg_fns if x["name"] == "write" and "SwitchCase" in (x.get("self_short") or x["path"])]
    ok = len(sw) == 1 and any(n.get("k") == "assign" and show(n["lhs"]).endswith("context_strength") for n in walk(sw[0]["body"]))
    rep.check(ok, "case-arm-context", "SwitchCase::write must raise `context_strength` before writing the condition and the value: both are read as `func_call(expr)`, so a lambda there needs parentheses",
              file=sw[0]["file"] if sw else kw["file"], line=sw[0]["l"] if sw else kw["l"], fn=sw[0]["path"] if sw else kw["path"])
    # (5, 6) `@` is followed by one term
    st = [x for x in cg_fns if x["name"] == "write" and (x.get("self_short") == "Stmt" or "<Stmt as" in x["path"])][0]
    al = [n for n in walk(st["body"]) if n.get("k") == "for" and "annotations" in show(n.get("e", n.get("iter")), maxdepth=6)]
    ok = len(al) == 1 and any("(" in str(v) for v in strs(al[0]["body"])) and any(x.get("k") == "if" or x.get("k") == "match" for x in walk(al[0]["body"]))
    rep.check(ok, "annotation-term", "the annotation loop of Stmt::write must put anything but a tuple / name into parentheses: `@(f x)` was printed `@f x` (annotation `@f`, statement `x`) and `@(10)` as the "
              "time literal `@10`", file=st["file"], line=al[0]["l"] if al else st["l"], fn=st["path"])
    # recorded and not repaired: doc comments, the name `*`, strings that need an escape after all
    docs = any("doc_comment" in show_stmts(x["body"], maxdepth=20) for x in syn.fns if x["crate"] == "prqlc" and "/codegen/" in x["file"] and "body" in x)
    rep.check(docs, "doc-comments", "nothing under codegen/ reads `doc_comment`: `#! doc` lines are dropped by `prqlc fmt` (the trees differ; between two pipeline lines the program changes)",
              file=st["file"], line=st["l"], fn=st["path"])
    vi = fn_("valid_prql_ident")
    star = any(isinstance(v, str) and "\\*" in v for v in strs(vi["body"]))
    rep.check(not star, "star-name", "valid_prql_ident accepts `*`, so write_ident_part prints a declaration, alias or parameter called `*` without back-ticks (``let `*` = 1`` -> `let * = 1`, which does not "
              "parse); a bare `*` is only the last part of a path", file=vi["file"], line=vi["l"], fn=vi["path"])
    qs = [x for x in syn.fns if x["crate"] == "prqlc_parser" and x["name"] == "quote_string" and "body" in x]
    esc = bool(qs) and any(x.get("k") == "mcall" and x["m"] in ("replace", "escape_default") for x in walk(qs[0]["body"]))
    rep.check(esc, "quote-string-escape", "quote_string picks a delimiter and never escapes: a string that contains both quote characters and starts or ends with the chosen one (`'\"a\\''`) is printed with the "
              "quote merged into the delimiter and does not lex", file=qs[0]["file"] if qs else None, line=qs[0]["l"] if qs else None, fn=qs[0]["path"] if qs else None)


def run(ctx, rep):
    for r in (r1, r2, r3, r4, r5, r7, r8, r9, r10, r11, r12, r13, r14):
        rep.guard(r, ctx)
