"""C15 - staged compilation through JSON equals one-shot compile.

Decides:
  R1 serde attribute discipline on every field of every type reachable from pr::ModuleDef and rq::RelationalQuery
     (resolved field types from the rustc driver joined with the attributes from the syntax tree)
  R2 hand-written Serialize/Deserialize pairs agree (Span text form, Ident as sequence)
  R3 values JSON cannot represent (non-finite floats) cannot be constructed
  R4 the staged functions call the same pipeline as compile, with the same constant arguments and error sources
Not decided: equality for all documents; float text round trip inside serde_json (trusted).
"""
import re

from synq import (walk, show, show_stmts, strs, last_seg, pat_alts, pat_head, tail_expr, matches_of, mcalls, calls,
                  macros, lit_val, AnchorMissing)

META = (
    "serde attribute discipline and staged/one-shot agreement",
    ["A1", "serde_json's own float/string round trip is trusted"],
    "attribute table rules over every field reachable (by resolved type) from the two JSON roots; pairwise agreement of "
    "hand-written Serialize/Deserialize impls; call-sequence comparison of compile vs the staged entry points",
    True,
)


def serde_args(attrs):
    out = []
    for a in attrs:
        if a["name"] == "serde":
            out.append(a["args"])
        if a["name"] == "cfg_attr" and "serde(" in a["args"]:
            out.append(a["args"])
    return " , ".join(out)


def r1(ctx, rep):
    rep.rule("C15.R1", "serde attributes keep every reachable field round-trippable", floor=150)
    syn = ctx.syn
    # the JSON roots: pr::ModuleDef (parser crate) and rq::RelationalQuery (compiler crate)
    rows = [t for t in ctx.mir["prqlc_parser"].get("type_reach", []) if t["root"] == "ModuleDef"] + \
           [t for t in ctx.mir["prqlc"].get("type_reach", []) if t["root"] == "RelationalQuery"]
    if not rows:
        rep.bad("roots", "the driver reported no fields reachable from ModuleDef / RelationalQuery")
        return
    # index syn adts by (name, file-independent) -> may be ambiguous: use the crate + last path segments of the owner
    by_name = {}
    for a in syn.adts:
        if a.get("kind") in ("struct", "enum"):
            by_name.setdefault(a["name"], []).append(a)
    seen = set()
    for t in rows:
        owner_path = t["owner"]
        name = last_seg(owner_path)
        cands = by_name.get(name, [])
        if len(cands) > 1:
            # disambiguate by module words of the resolved path
            words = [w for w in owner_path.split("::")[:-1]]
            best = [a for a in cands if all(w in a["path"].split("::") for w in words[-2:])]   # whole segments: `rq` is a substring of `prqlc`
            cands = best or cands
        if not cands:
            continue
        adt = cands[0]
        fields = None
        if adt["kind"] == "struct":
            fields = adt["fields"]
        else:
            for v in adt["variants"]:
                if v["name"] == t["variant"]:
                    fields = v["fields"]
        if not fields:
            continue
        fd = [f for f in fields if f["name"] == t["field"]]
        if not fd:
            continue
        f = fd[0]
        key = f"{t['root']}:{name}{'::' + t['variant'] if adt['kind'] == 'enum' else ''}.{t['field']}"
        if key in seen:
            continue
        seen.add(key)
        sa = serde_args(f["attrs"])
        ty = t["ty"]
        problems = []
        is_option = ty.startswith("std::option::Option<")
        if "skip_serializing_if" in sa:
            m = re.search(r'skip_serializing_if\s*=\s*"([^"]+)"', sa)
            pred = m.group(1) if m else "?"
            if not is_option and "default" not in sa:
                problems.append(f"skip_serializing_if=\"{pred}\" without `default`: when the field is skipped on output, reading the document back fails with `missing field`")
            ok_pred = {"Option::is_none": is_option, "Vec::is_empty": "Vec<" in ty, "HashMap::is_empty": "HashMap<" in ty, "is_false": ty == "bool",
                       "String::is_empty": ty.endswith("String")}
            if pred in ok_pred and not ok_pred[pred]:
                problems.append(f"skip_serializing_if=\"{pred}\" on a field of type {ty}")
            if pred not in ok_pred:
                problems.append(f"skip predicate `{pred}` is not one whose skipped value equals the deserialisation default")
            md = re.search(r'default\s*=\s*"([^"]+)"', sa)
            if md:
                # a custom default: the value it returns must be one the predicate skips (otherwise a skipped value reads back as a different one)
                dfs = syn.find_fns(md.group(1), crate=adt.get("crate")) or syn.find_fns(last_seg(md.group(1)))
                val = show(tail_expr(dfs[0]["body"])) if len(dfs) == 1 and "body" in dfs[0] else None
                skipped = {"Option::is_none": {"None"}, "Vec::is_empty": {"Vec::new()", "vec!()", "Vec::default()", "Default::default()"},
                           "HashMap::is_empty": {"HashMap::new()", "HashMap::default()", "Default::default()"}, "is_false": {"false"},
                           "String::is_empty": {"String::new()", "String::default()", "Default::default()"}}.get(pred, set())
                if val not in skipped:
                    problems.append(f"`default = \"{md.group(1)}\"` returns `{val}` but `{pred}` skips {sorted(skipped)}: a skipped value is read back as `{val}`")
        if re.search(r"\bskip\b(?!_serializing_if)", sa) or "skip_deserializing" in sa or re.search(r"skip_serializing\b(?!_if)", sa):
            problems.append("`skip` on a field of the serialised IR: the value is lost in the JSON stage")
        if "flatten" in sa:
            # must be an enum type with no unit variants whose variant names do not collide with sibling fields
            tname = last_seg(re.sub(r"<.*", "", ty))
            en = [a for a in by_name.get(tname, []) if a["kind"] == "enum"]
            if not en:
                problems.append(f"flatten on a non-enum field type {ty}")
            else:
                sib = {x["name"] for x in fields}
                clash = sorted(sib & {v["name"] for v in en[0]["variants"]})
                if clash:
                    problems.append(f"flattened variant names {clash} collide with sibling field names")
                if any("deny_unknown_fields" in serde_args(a_["attrs"] if False else adt["attrs"]) for a_ in [0]):
                    problems.append("flatten together with deny_unknown_fields")
        if "rename" in sa and "rename_all" not in sa and "alias" not in sa:
            pass  # rename applies to both directions
        if "deserialize_with" in sa and "serialize_with" not in sa or ("serialize_with" in sa and "deserialize_with" not in sa and "with =" not in sa):
            problems.append("one-directional custom (de)serialiser: the other direction uses the derived form")
        rep.check(not problems, key, f"{owner_path}.{t['field']} ({ty}) #[serde({sa})]: " + "; ".join(problems), file=adt["file"], line=f["l"])
    # container attributes: tag / untagged / deny_unknown_fields must be symmetric by construction (derive of both)
    for a in syn.adts:
        if a.get("kind") in ("struct", "enum") and any(last_seg(t["owner"]) == a["name"] for t in rows):
            der = " ".join(x["args"] for x in a.get("attrs", []) if x["name"] == "derive")
            if ("Serialize" in der) != ("Deserialize" in der):
                hand = [i for i in syn.impls if i["self_short"] == a["name"] and i.get("trait_short") in ("Serialize", "Deserialize")]
                rep.check(len(hand) >= 1, f"pair:{a['name']}", f"{a['name']} derives only one of Serialize/Deserialize and has no hand-written counterpart", file=a["file"], line=a["l"])


def r2(ctx, rep):
    rep.rule("C15.R2", "hand-written Serialize/Deserialize pairs agree", floor=4)
    syn = ctx.syn
    # Span: Debug writes source_id:start-end ; visit_str splits at ':' then '-' into (file_id, start, end)
    dbg = [f for f in syn.fns if f["crate"] == "prqlc_parser" and f.get("self_short") == "Span" and f.get("trait_short") == "Debug" and f["name"] == "fmt"]
    if len(dbg) != 1:
        raise AnchorMissing("impl Debug for Span")
    w = [m for m in macros(dbg[0]["body"], "write")]
    ok = bool(w) and lit_val(w[0]["a"][1]) == "{}:{}-{}" and [show(a) for a in w[0]["a"][2:]] == ["self.source_id", "self.start", "self.end"]
    rep.check(ok, "span:writer", f"Span's text form must be `source_id:start-end`; found {[show(a) for a in w[0]['a'][1:]] if w else None}", file=dbg[0]["file"], line=dbg[0]["l"], fn=dbg[0]["path"])
    ser = [f for f in syn.fns if f["crate"] == "prqlc_parser" and f.get("self_short") == "Span" and f.get("trait_short") == "Serialize"]
    ser_ok = False
    if len(ser) == 1:
        As = __import__("alpha").Inliner(ser[0])
        calls_ser = [n for n in walk(ser[0]["body"]) if n.get("k") == "mcall" and n["m"] == "serialize_str" and n["a"]]
        ser_ok = len(calls_ser) == 1 and As.show(calls_ser[0]["a"][0], strip=True).replace('"', "'") in ("format!('{self:?}')", "format!('{:?}', self)")
    rep.check(ser_ok, "span:serialize",
              "Span must serialise as that Debug text", file=ser[0]["file"] if ser else None, line=ser[0]["l"] if ser else None)
    de = [f for f in syn.fns if f["crate"] == "prqlc_parser" and f["file"].endswith("span.rs") and f.get("trait_short") == "Deserialize"]
    if len(de) != 1:
        raise AnchorMissing("impl Deserialize for Span")
    vs = [n for n in walk(de[0]["body"]) if n.get("k") == "item_fn" and n["name"] == "visit_str"]
    body = vs[0]["body"] if vs else de[0]["body"]
    # dataflow, independent of names and of `if let` / `let else` / `match` spelling:
    # every binder of a `split_once(sep)` result is tagged (sep, position); locals are followed through `.parse()` re-bindings
    import guards
    par = guards.parents(body)
    tag = {}        # id(pattern ident node) -> (sep, index, receiver node)
    for n in walk(body):
        pat, ex = None, None
        if n.get("k") == "let":                       # `if let P = E` / `while let`
            pat, ex = n["pat"], n["e"]
        elif n.get("k") == "local" and n.get("init") is not None:
            pat, ex = n["pat"], n["init"]
        elif n.get("k") == "match":
            for a in n["arms"]:
                if "Some" in show(a["pat"]):
                    pat, ex = a["pat"], n["e"]
        if pat is None or not (ex.get("k") == "mcall" and ex["m"] == "split_once"):
            continue
        names = [x for x in walk(pat) if x.get("k") == "p_ident"]
        if len(names) == 2:
            for i, x in enumerate(names):
                tag[x["n"]] = (lit_val(ex["a"][0]), i, ex["r"])

    parsed_as = {}

    def origin(e, depth=0, field=None):
        """(sep, index) of the split component an expression is computed from"""
        while e is not None and e.get("k") in ("try", "mcall", "paren", "ref"):
            if e.get("k") == "mcall" and e["m"] == "parse" and field is not None:
                parsed_as[field] = (e.get("tf") or "").replace(" ", "").strip(":<>")
            e = e["e"] if e.get("k") in ("try", "paren", "ref") else e["r"]
        if e is None or e.get("k") != "path" or depth > 4:
            return None
        st_ = guards.visible_def_nodes(par, e, e["p"])
        if st_ is not None and st_.get("init") is not None and not (st_["init"].get("k") == "mcall" and st_["init"]["m"] == "split_once"):
            return origin(st_["init"], depth + 1, field)
        return tag.get(e["p"], (None, None, None))[:2] if e["p"] in tag else None
    st = None
    st_node = None
    for n in walk(body):
        if n.get("k") == "struct" and last_seg(n["p"]) == "Span":
            st_node = {a: b for a, b in n["f"]}
    got = {k: origin(v, 0, k) for k, v in (st_node or {}).items()}
    second_recv = [origin(v[2]) for v in tag.values() if v[0] == "-"]
    ok = got == {"source_id": (":", 0), "start": ("-", 0), "end": ("-", 1)} and bool(second_recv) and all(r == (":", 1) for r in second_recv)
    rep.check(ok, "span:reader", f"the reader must split `file:start-end` at the first ':' and the remainder at '-', and build Span{{source_id: 1st of ':', start: 1st of '-', end: 2nd of '-'}}; "
              f"found fields {got}, '-' applied to {second_recv}", file=de[0]["file"], line=de[0]["l"], fn=de[0]["path"])
    rep.check(parsed_as == {"source_id": "u16", "start": "usize", "end": "usize"}, "span:widths",
              f"each component must be parsed at the width of its field (source_id: u16, start / end: usize); found {parsed_as}: a narrower parse rejects spans of large sources",
              file=de[0]["file"], line=de[0]["l"], fn=de[0]["path"])
    # the reader accepts every value of that width: a rejection that depends on the parsed VALUE refuses documents the writer produces
    # (the std library's own spans carry source id 0)
    value_rej = []
    for n in walk(body):
        if n.get("k") == "if" and any(r.get("k") == "return" and "Err" in show(r.get("e"), maxdepth=4) for r in walk(n["t"])) or \
                (n.get("k") == "if" and any(x.get("k") == "call" and show(x["f"]) == "Err" for x in walk(n["t"]))):
            c = n["c"]
            if c.get("k") == "let":
                continue            # `if let Some(..) = split_once(..)`: the shape of the text, not a value
            value_rej.append(show(c, maxdepth=8))
    for n in walk(body):
        if n.get("k") == "match":
            for a in n["arms"]:
                if a.get("guard") is not None and "Err" in show(a["body"], maxdepth=6):
                    value_rej.append("match guard " + show(a["guard"], maxdepth=8))
    rep.check(not value_rej, "span:reader-total", f"the Span reader rejects documents depending on a parsed value ({value_rej}): `from_rq` writes the spans of std.prql with source id 0 "
              "(`remove`, `intersect`), so the RQ document of such a program cannot be read back", file=de[0]["file"], line=de[0]["l"], fn=de[0]["path"])
    # Ident: sequence of path ++ [name]  <->  from_path(Vec<String>)
    ise = [f for f in syn.fns if f["crate"] == "prqlc_parser" and f.get("self_short") == "Ident" and f.get("trait_short") == "Serialize"]
    ide = [f for f in syn.fns if f["crate"] == "prqlc_parser" and f.get("self_short") == "Ident" and f.get("trait_short") == "Deserialize"]
    if len(ise) != 1 or len(ide) != 1:
        raise AnchorMissing("impl Serialize/Deserialize for Ident")
    t = show_stmts(ise[0]["body"], maxdepth=8)
    # two element writes in source order: first every element of self.path (a `for` over it or an iterator adapter on it), then self.name
    sites = sorted((n for n in walk(ise[0]["body"]) if n.get("k") == "mcall" and n["m"] == "serialize_element"), key=lambda n: (n["l"], n.get("c", 0)))
    elems = [show(n["a"][0]) for n in sites]
    import guards as _g
    par_ = _g.parents(ise[0]["body"])

    def iterates_path(n):
        cur = n
        while id(cur) in par_:
            cur = par_[id(cur)]
            if cur.get("k") == "for" and "self.path" in show(cur["e"], maxdepth=4):
                return True
            if cur.get("k") == "mcall" and cur["m"] in ("try_for_each", "for_each", "try_fold") and "self.path" in show(cur["r"], maxdepth=5):
                return True
        return False
    rep.check(len(sites) == 2 and iterates_path(sites[0]) and elems[1].lstrip("&") == "self.name" and not iterates_path(sites[1]), "ident:writer",
              f"Ident must serialise as the sequence path.. , name; found elements {elems}", file=ise[0]["file"], line=ise[0]["l"], fn=ise[0]["path"])
    rep.check(".map(Ident::from_path)" in show_stmts(ide[0]["body"], maxdepth=10), "ident:reader", "Ident must deserialise from a sequence through from_path (last element = name)", file=ide[0]["file"], line=ide[0]["l"], fn=ide[0]["path"])
    fp = syn.fn("Ident::from_path", crate="prqlc_parser")
    t = show_stmts(fp["body"], maxdepth=8)
    rep.check("path.pop()" in t and "name" in t, "ident:from_path", "from_path must take the LAST element as the name", file=fp["file"], line=fp["l"], fn=fp["path"])


def r3(ctx, rep):
    rep.rule("C15.R3", "non-finite floats (not representable in JSON) cannot be constructed", floor=1)
    syn = ctx.syn
    nf = syn.fn("lexer::number", crate="prqlc_parser")
    import C08
    conds = C08.float_literal_conditions(nf)
    rep.check(conds is not None and bool(conds[0] & {".is_finite()", ".is_infinite()", ".is_nan()"}), "finite-guard", "`1e999` lexes to Literal::Float(inf); serde_json writes a non-finite f64 as `null`, so the PL document of such a program reads back as a different tree "
              "(Float(null) fails to deserialise)", file=nf["file"], line=nf["l"], fn=nf["path"])


def call_seq(fn):
    """ordered list of (callee text, constant args) for the pipeline calls in a function body"""
    out = []
    for n in walk(fn["body"]):
        if n.get("k") == "call":
            c = show(n["f"])
            if c in ("parser::parse", "semantic::resolve_and_lower", "sql::compile"):
                out.append((c, [show(a) for a in n["a"]], n["l"]))
        if n.get("k") == "path" and n["p"] == "parser::parse":
            out.append(("parser::parse", ["<point-free>"], n["l"]))
        if n.get("k") == "mcall" and n["m"] == "with_source":
            out.append(("with_source", [show(a) for a in n["a"]], n["l"]))
        if n.get("k") == "mcall" and n["m"] == "composed":
            out.append(("composed", [], n["l"]))
    # dedupe parser::parse (path + call)
    res = []
    out = [x for _, x in sorted(enumerate(out), key=lambda p: (p[1][2], p[0]))]
    out = [(a, b) for a, b, _ in out]
    for x in out:
        if res and res[-1][0] == x[0] == "parser::parse":
            continue
        res.append(x)
    return res


def r4(ctx, rep):
    rep.rule("C15.R4", "staged functions run the same pipeline as compile", floor=6)
    syn = ctx.syn
    comp = call_seq(syn.fn("prqlc::compile", crate="prqlc"))
    names = [c for c, _ in comp]
    rep.check([n for n in names if n in ("parser::parse", "semantic::resolve_and_lower", "sql::compile")] == ["parser::parse", "semantic::resolve_and_lower", "sql::compile"], "compile:stages",
              f"compile must be parse -> resolve_and_lower -> sql::compile; found {names}")
    d = dict((c, a) for c, a in comp if c != "with_source")
    ws = [a for c, a in comp if c == "with_source"]
    # stage 1
    p = call_seq(syn.fn("prqlc::prql_to_pl_tree", crate="prqlc"))
    rep.check([c for c, _ in p if c == "parser::parse"] == ["parser::parse"], "stage:prql_to_pl", f"prql_to_pl_tree must call parser::parse; found {p}")
    p1 = syn.fn("prqlc::prql_to_pl", crate="prqlc")
    rep.check("SourceTree::from(prql)" in show_stmts(p1["body"], maxdepth=6) and "prql_to_pl_tree(&source_tree)" in show_stmts(p1["body"], maxdepth=6), "stage:prql_to_pl:source",
              "prql_to_pl must wrap the string in the same single-file SourceTree as compile", file=p1["file"], line=p1["l"], fn=p1["path"])
    c1 = syn.fn("prqlc::compile", crate="prqlc")
    rep.check("SourceTree::from(prql)" in show_stmts(c1["body"], maxdepth=6), "compile:source", "compile must wrap the string in a single-file SourceTree", file=c1["file"], line=c1["l"], fn=c1["path"])
    # stage 2
    q = call_seq(syn.fn("prqlc::pl_to_rq", crate="prqlc"))
    ra = [a for c, a in q if c == "semantic::resolve_and_lower"]
    rc = d.get("semantic::resolve_and_lower")
    rep.check(bool(ra) and rc is not None and ra[0][1:] == rc[1:], "stage:pl_to_rq:args", f"pl_to_rq must call resolve_and_lower with the same main path / database module as compile ({rc}); found {ra}")
    rep.check([a for c, a in q if c == "with_source"] == [["ErrorSource::NameResolver"]] and ["ErrorSource::NameResolver"] in ws, "stage:pl_to_rq:error-source",
              "resolver errors must be tagged NameResolver in both paths")
    # stage 3
    r = call_seq(syn.fn("prqlc::rq_to_sql", crate="prqlc"))
    sa = [a for c, a in r if c == "sql::compile"]
    rep.check(bool(sa) and sa[0] == ["rq", "options"] and d.get("sql::compile") == ["rq", "options"], "stage:rq_to_sql:args", f"rq_to_sql must call sql::compile(rq, options) like compile; found {sa} vs {d.get('sql::compile')}")
    rep.check([a for c, a in r if c == "with_source"] == [["ErrorSource::SQL"]] and ["ErrorSource::SQL"] in ws, "stage:rq_to_sql:error-source", "SQL errors must be tagged SQL in both paths")
    # JSON functions are plain serde_json of the same types
    for name, fn_, arg in (("from_pl", "serde_json::to_string", "pl"), ("to_pl", "serde_json::from_str", "json"), ("from_rq", "serde_json::to_string", "rq"), ("to_rq", "serde_json::from_str", "json")):
        f = syn.fn("prqlc::json::" + name, crate="prqlc")
        # the value returned is `<serde_json fn>(<the parameter>)` with only its error converted (how the error is converted is free)
        t = tail_expr(f["body"])
        while t is not None and t.get("k") == "mcall" and t["m"] in ("map_err",):
            t = t["r"]
        prm = [p["name"] for p in f.get("params", []) if isinstance(p, dict) and "name" in p]
        rep.check(t is not None and show(t) == f"{fn_}({prm[0] if prm else arg})", f"json:{name}", f"json::{name} must be {fn_}(<its argument>)", file=f["file"], line=f["l"], fn=f["path"])
    # error composition: only compile (and prql_to_pl) know the sources
    composed = {"compile": any(c == "composed" for c, _ in comp), "pl_to_rq": any(c == "composed" for c, _ in q), "rq_to_sql": any(c == "composed" for c, _ in r)}
    rep.check(composed["pl_to_rq"] == composed["compile"] and composed["rq_to_sql"] == composed["compile"], "errors-composed",
              f"compile composes its errors with the source text (location, rendered snippet); the staged pl_to_rq / rq_to_sql return the same error WITHOUT location and display ({composed}): "
              "the error a binding user sees for the same program differs between the one-shot and the staged path")


def r5(ctx, rep):
    rep.rule("C15.R5", "the JSON reader parses a float back to the f64 that was written", floor=2)
    import json
    import os
    import subprocess
    # which reachable fields are floats (driver: fields reachable from the two JSON roots)
    floats = sorted({(t["owner_id"], t["variant"]) for crate in ("prqlc_parser", "prqlc") for t in ctx.mir[crate].get("type_reach", []) if t["ty"] in ("f64", "f32")})
    rep.check(bool(floats), "float-fields", f"expected Literal::Float among the fields reachable from ModuleDef / RelationalQuery, found {floats}")
    env = dict(os.environ, CARGO_NET_OFFLINE="true")
    r = subprocess.run(["cargo", "metadata", "--offline", "--format-version", "1", "--no-deps"], cwd=ctx.repo, env=env, stdout=subprocess.PIPE, stderr=subprocess.PIPE, text=True)
    if r.returncode != 0:
        rep.bad("manifest", "cargo metadata failed on the workspace manifest: " + r.stderr[-300:])
        return
    meta = json.loads(r.stdout)
    pk = [p for p in meta["packages"] if p["name"] == "prqlc"]
    dep = [d for p in pk for d in p["dependencies"] if d["name"] == "serde_json" and d.get("kind") in (None, "normal")]
    feats = sorted({f for d in dep for f in d.get("features", [])})
    # serde_json's default number parser is the fast, inexact one: documented to be up to 1 ULP off ("float_roundtrip: use sufficient precision when parsing fixed
    # precision floats from JSON to ensure that they maintain accuracy when round-tripped through JSON")
    rep.check(bool(dep) and (not floats or "float_roundtrip" in feats), "serde_json:float_roundtrip", f"the compiler crate depends on serde_json with features {feats}; {len(floats)} float field(s) {floats} "
              "are written to the PL / RQ documents. Without `float_roundtrip` serde_json reads `1000000000.0126345` back as 1000000000.0126344: the staged pipeline then compiles a different "
              "literal than the one-shot one", file="Cargo.toml", line=1, fn="workspace.dependencies.serde_json")


def r6(ctx, rep):
    rep.rule("C15.R6", "the JSON reader accepts every document the JSON writer produces: no nesting bound on one side only", floor=2)
    syn = ctx.syn
    readers = [f for f in syn.fns if f["crate"] == "prqlc" and "body" in f and f["file"].endswith("prqlc/src/lib.rs") and "::json::" in f["path"]
               and any(n.get("k") == "call" and re.search(r"serde_json::(from_str|from_slice|from_reader)$", show(n["f"])) for n in walk(f["body"]))]
    writers = [f for f in syn.fns if f["crate"] == "prqlc" and "body" in f and f["file"].endswith("prqlc/src/lib.rs") and "::json::" in f["path"]
               and any(n.get("k") == "call" and re.search(r"serde_json::to_(string|vec|writer)(_pretty)?$", show(n["f"])) for n in walk(f["body"]))]
    rep.check(len(writers) >= 2, "writers", f"expected from_pl / from_rq to write with serde_json::to_string, found {[w['name'] for w in writers]}")
    # the document types are recursive (Expr -> Box<Expr>): the driver's reachability rows contain an owner that reaches itself
    for f in readers:
        unlimited = any(n.get("k") == "mcall" and n["m"] == "disable_recursion_limit" for n in walk(f["body"]))
        rep.check(unlimited, f"reader-depth:{f['name']}", f"{f['path']} reads with serde_json::from_str, which stops at 128 nested values, while the writer and every compiler stage have no nesting bound: "
                  "`from t | select x = a + a + .. + a` with 40 terms compiles in one shot and fails with `recursion limit exceeded` when the PL document is read back",
                  file=f["file"], line=f["l"], fn=f["path"])
    rep.check(len(readers) >= 2, "readers", f"expected to_pl / to_rq among the JSON readers, found {[r_['name'] for r_ in readers]}")


def run(ctx, rep):
    for r in (r1, r2, r3, r4, r5, r6):
        rep.guard(r, ctx)
