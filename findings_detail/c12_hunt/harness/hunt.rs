// Scratch harness for the staged JSON API (not part of the compiler).
// usage: hunt <pl|rq|plfmt> [dialect] < doc.json
use std::io::Read;
use std::str::FromStr;
fn main() {
    let args: Vec<String> = std::env::args().collect();
    let mode = args.get(1).map(|s| s.as_str()).unwrap_or("pl");
    let mut s = String::new();
    std::io::stdin().read_to_string(&mut s).unwrap();
    let mut opts = prqlc::Options::default().no_signature();
    if let Some(d) = args.get(2) {
        opts.target = prqlc::Target::from_str(d).expect("bad target");
    }
    match mode {
        "pl" => {
            let pl = match prqlc::json::to_pl(&s) { Ok(x) => x, Err(e) => { println!("to_pl error: {e}"); return; } };
            let rq = match prqlc::pl_to_rq(pl) { Ok(x) => x, Err(e) => { println!("pl_to_rq error: {e}"); return; } };
            match prqlc::rq_to_sql(rq, &opts) { Ok(x) => println!("{x}"), Err(e) => println!("rq_to_sql error: {e}") }
        }
        "plfmt" => {
            let pl = match prqlc::json::to_pl(&s) { Ok(x) => x, Err(e) => { println!("to_pl error: {e}"); return; } };
            match prqlc::pl_to_prql(&pl) { Ok(x) => println!("{x}"), Err(e) => println!("pl_to_prql error: {e}") }
        }
        "rq" => {
            let rq = match prqlc::json::to_rq(&s) { Ok(x) => x, Err(e) => { println!("to_rq error: {e}"); return; } };
            match prqlc::rq_to_sql(rq, &opts) { Ok(x) => println!("{x}"), Err(e) => println!("rq_to_sql error: {e}") }
        }
        "prql2rq" => {
            let pl = prqlc::prql_to_pl(&s).unwrap();
            let rq = prqlc::pl_to_rq(pl).unwrap();
            println!("{}", prqlc::json::from_rq(&rq).unwrap());
        }
        "prql2pl" => {
            let pl = prqlc::prql_to_pl(&s).unwrap();
            println!("{}", prqlc::json::from_pl(&pl).unwrap());
        }
        _ => panic!("bad mode"),
    }
}
