import sys, subprocess, os
sys.path.insert(0, '/tmp/wt-hunt01-out')
import fuzz
db = fuzz.make_db()
for f in sys.argv[1:]:
    text = open(f).read()
    sql, err = fuzz.compile_prql(text)
    print('#', f)
    print(text.strip())
    if sql is None:
        print('COMPILE ERROR', err); continue
    print('-- SQL:', ' '.join(sql.split()))
    try:
        cur = db.execute(sql)
        print('-- columns:', [d[0] for d in cur.description])
        for r in cur.fetchall(): print('  ', r)
    except Exception as e:
        print('SQL ERROR', e)
    print()
