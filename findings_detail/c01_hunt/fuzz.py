#!/usr/bin/env python3
"""Differential fuzzer: PRQL subset reference interpreter vs prqlc --target sql.sqlite + sqlite3."""
import random, sqlite3, subprocess, sys, os, json, itertools, collections, copy, argparse

PRQLC = '/tmp/wt-hunt01-target/debug/prqlc'
OUT = '/tmp/wt-hunt01-out'

# ---------------------------------------------------------------- data
TABLES = {
    't1': (['id', 'a', 'b', 'g', 's'], ['int', 'int', 'int', 'text', 'text'], [
        (1, 3, 10, 'x', 'p'),
        (2, 1, None, 'y', 'q'),
        (3, 3, 5, 'x', 'p'),
        (4, 2, 7, 'z', None),
        (5, None, 7, 'y', 'q'),
        (6, 1, 2, 'x', 'r'),
        (7, 2, None, 'z', 'p'),
        (8, 3, 10, 'x', 'q'),
        (9, 1, 4, 'y', 'p'),
        (10, 2, 9, None, 'r'),
        (11, 5, 1, 'x', 'p'),
        (12, 4, 6, 'y', 'q'),
    ]),
    't2': (['id', 'a', 'c', 'g'], ['int', 'int', 'int', 'text'], [
        (2, 1, 4, 'y'),
        (3, 3, 1, 'x'),
        (3, 3, 1, 'x'),
        (5, 2, None, 'w'),
        (7, 2, 6, 'z'),
        (9, None, 3, 'y'),
        (10, 2, 8, 'x'),
        (13, 1, 2, 'w'),
        (14, 3, 5, None),
    ]),
    't3': (['k', 'v', 'g'], ['int', 'int', 'text'], [
        (1, 1, 'x'),
        (1, 1, 'x'),
        (2, 2, 'y'),
        (2, 2, 'y'),
        (2, 2, 'y'),
        (3, None, 'x'),
        (3, None, 'x'),
        (4, 3, 'z'),
    ]),
}


def make_db():
    db = sqlite3.connect(':memory:')
    for name, (cols, types, rows) in TABLES.items():
        db.execute('CREATE TABLE %s (%s)' % (name, ', '.join('%s %s' % (c, 'INTEGER' if t == 'int' else 'TEXT') for c, t in zip(cols, types))))
        db.executemany('INSERT INTO %s VALUES (%s)' % (name, ','.join('?' * len(cols))), rows)
    return db


# ---------------------------------------------------------------- relation model
class Rel:
    def __init__(self, cols, types, rows, okeys=None, wc=False, hidden=None):
        self.cols = list(cols)      # list of (qual, name)
        self.types = list(types)
        self.rows = [tuple(r) for r in rows]
        self.okeys = okeys          # None = unordered; else list of comparable, equal = tie
        if wc is True or wc is False:
            wc = [wc] * len(self.cols)
        self.wc = list(wc)          # per column: the compiler only knows it through a wildcard
        assert len(self.wc) == len(self.cols)
        self.hidden = set(hidden or ())

    @property
    def wildcard(self):
        return any(self.wc)

    def copy(self):
        return Rel(self.cols, self.types, self.rows, None if self.okeys is None else list(self.okeys), self.wc, self.hidden)

    def names(self):
        return [n for _, n in self.cols]

    def refable(self):
        """indexes of columns that can be referenced, with the text of the reference"""
        res = {}
        names = self.names()
        wq = set(q for (q, n), w in zip(self.cols, self.wc) if w)
        for i, (q, n) in enumerate(self.cols):
            if i in self.hidden:
                continue
            if self.wc[i] and len(wq) > 1:
                if q is not None and self.cols.count((q, n)) == 1:
                    res[i] = '%s.%s' % (q, n)
                continue
            if names.count(n) == 1:
                res[i] = n
            elif q is not None and self.cols.count((q, n)) == 1:
                res[i] = '%s.%s' % (q, n)
        return res


class Unsupported(Exception):
    pass


# ---------------------------------------------------------------- expressions
# ('col', idx) -- idx into current frame (printing needs the frame)
# ('lit', v) ('bin', op, l, r) ('isnull', e, neg) ('coalesce', l, r) ('not', e)

def ev(e, row):
    k = e[0]
    if k == 'col':
        return row[e[1]]
    if k == 'lit':
        return e[1]
    if k == 'isnull':
        v = ev(e[1], row)
        return (v is not None) if e[2] else (v is None)
    if k == 'coalesce':
        v = ev(e[1], row)
        return v if v is not None else ev(e[2], row)
    if k == 'not':
        v = ev(e[1], row)
        return None if v is None else (not v)
    if k == 'bin':
        op = e[1]
        l = ev(e[2], row)
        r = ev(e[3], row)
        if op == '&&':
            if l is not None and not l:
                return False
            if r is not None and not r:
                return False
            if l is None or r is None:
                return None
            return True
        if op == '||':
            if l is not None and l:
                return True
            if r is not None and r:
                return True
            if l is None or r is None:
                return None
            return False
        if l is None or r is None:
            return None
        if op == '+': return l + r
        if op == '-': return l - r
        if op == '*': return l * r
        if op == '==': return l == r
        if op == '!=': return l != r
        if op == '<': return l < r
        if op == '<=': return l <= r
        if op == '>': return l > r
        if op == '>=': return l >= r
    raise Exception('bad expr %r' % (e,))


def pe(e, ref):
    """print expression; ref maps column index -> text"""
    k = e[0]
    if k == 'col':
        return ref[e[1]]
    if k == 'lit':
        v = e[1]
        if v is None: return 'null'
        if isinstance(v, str): return "'%s'" % v
        if v is True: return 'true'
        if v is False: return 'false'
        return str(v)
    if k == 'isnull':
        return '(%s %s null)' % (pe(e[1], ref), '!=' if e[2] else '==')
    if k == 'coalesce':
        return '(%s ?? %s)' % (pe(e[1], ref), pe(e[2], ref))
    if k == 'not':
        return '(!%s)' % pe(e[1], ref)
    if k == 'bin':
        return '(%s %s %s)' % (pe(e[2], ref), e[1], pe(e[3], ref))
    raise Exception('bad expr')


def skey(v, desc=False):
    # sqlite: NULL sorts smallest
    return (0, 0) if v is None else (1, v)


def dense(keys):
    """map list of comparable keys to dense ranks"""
    order = sorted(set(keys))
    m = {k: i for i, k in enumerate(order)}
    return [m[k] for k in keys]


class Rev:
    __slots__ = ['v']
    def __init__(self, v): self.v = v
    def __lt__(self, o): return o.v < self.v
    def __gt__(self, o): return o.v > self.v
    def __eq__(self, o): return self.v == o.v
    def __le__(self, o): return o.v <= self.v
    def __ge__(self, o): return o.v >= self.v
    def __hash__(self): return hash(self.v)


# ---------------------------------------------------------------- window / aggregate functions
# agg: ('agg', fn, expr)  fn in sum,count,min,max,average
# win: ('agg', ...) | ('lag', n, expr) | ('lead', n, expr) | ('rank',) | ('rank_dense',) | ('row_number',)

def agg_apply(fn, vals, in_window):
    nn = [v for v in vals if v is not None]
    if fn == 'count':
        return len(vals)
    if fn == 'sum':
        if not nn:
            return None if in_window else 0
        return sum(nn)
    if fn == 'min':
        return min(nn) if nn else None
    if fn == 'max':
        return max(nn) if nn else None
    if fn == 'average':
        return (sum(nn) / len(nn)) if nn else None
    raise Exception(fn)


def pf(f, ref):
    k = f[0]
    if k == 'agg':
        return '%s %s' % (f[1], pe(f[2], ref))
    if k in ('lag', 'lead'):
        return '%s %d %s' % (k, f[1], pe(f[2], ref))
    if k in ('rank', 'rank_dense'):
        return '%s %s' % (k, pe(f[1], ref))
    if k == 'row_number':
        return 'row_number this'
    raise Exception(f)


def ftype(f, rel):
    k = f[0]
    if k == 'agg':
        if f[1] == 'average': return 'float'
        if f[1] in ('count',): return 'int'
        return etype(f[2], rel)
    if k in ('lag', 'lead'):
        return etype(f[2], rel)
    return 'int'


def etype(e, rel):
    k = e[0]
    if k == 'col': return rel.types[e[1]]
    if k == 'lit': return 'text' if isinstance(e[1], str) else ('bool' if isinstance(e[1], bool) else 'int')
    if k in ('isnull', 'not'): return 'bool'
    if k == 'coalesce': return etype(e[1], rel)
    if k == 'bin':
        return 'int' if e[1] in '+-*' else 'bool'


def window_eval(rows, okeys, funcs, frame):
    """rows: partition rows in current order (already physically sorted by okeys if ordered)
    frame: None (whole partition) | (lo, hi) with None = unbounded
    returns list of tuples of new values, one per row."""
    n = len(rows)
    need_total = False
    for f in funcs:
        if f[0] in ('lag', 'lead', 'row_number'):
            need_total = True
        if f[0] == 'agg' and frame is not None:
            need_total = True
        if f[0] in ('rank', 'rank_dense') and okeys is None:
            raise Unsupported('rank without order')
    if need_total:
        if okeys is None or len(set(okeys)) != n:
            # acceptable only if n <= 1
            if n > 1:
                raise Unsupported('window needs total order')
    out = []
    for i in range(n):
        vals = []
        for f in funcs:
            k = f[0]
            if k == 'agg':
                if frame is None:
                    lo, hi = 0, n - 1
                else:
                    lo = 0 if frame[0] is None else max(0, i + frame[0])
                    hi = n - 1 if frame[1] is None else min(n - 1, i + frame[1])
                seg = [ev(f[2], rows[j]) for j in range(lo, hi + 1)] if lo <= hi else []
                vals.append(agg_apply(f[1], seg, True))
            elif k == 'lag':
                j = i - f[1]
                vals.append(ev(f[2], rows[j]) if 0 <= j < n else None)
            elif k == 'lead':
                j = i + f[1]
                vals.append(ev(f[2], rows[j]) if 0 <= j < n else None)
            elif k == 'row_number':
                vals.append(i + 1)
            elif k == 'rank':
                vals.append(1 + sum(1 for j in range(n) if okeys[j] < okeys[i]))
            elif k == 'rank_dense':
                vals.append(1 + len(set(okeys[j] for j in range(n) if okeys[j] < okeys[i])))
        out.append(tuple(vals))
    return out


# ---------------------------------------------------------------- transforms (interpreter)
def t_sort(rel, keys):
    # keys: list of (desc, expr)
    def k(row):
        res = []
        for desc, e in keys:
            v = skey(ev(e, row))
            res.append(Rev(v) if desc else v)
        return tuple(res)
    ks = [k(r) for r in rel.rows]
    idx = sorted(range(len(rel.rows)), key=lambda i: ks[i])
    r = rel.copy()
    r.rows = [rel.rows[i] for i in idx]
    r.okeys = dense([ks[i] for i in idx])
    return r


def take_idx(rows, okeys, lo, hi):
    """positions lo..hi (1-based inclusive, hi None=unbounded). returns kept index list; raises if nondeterministic"""
    n = len(rows)
    lo0 = max(lo - 1, 0)
    hi0 = n if hi is None else min(hi, n)
    keep = list(range(lo0, hi0)) if lo0 < hi0 else []
    # determinism check at boundaries lo0 and hi0
    for b in (lo0, hi0):
        if 0 < b < n:
            same = (okeys is None) or (okeys[b - 1] == okeys[b])
            if same:
                # tie class containing b-1 and b must consist of identical rows
                if okeys is None:
                    cls = range(n)
                else:
                    cls = [i for i in range(n) if okeys[i] == okeys[b]]
                if len(set(rows[i] for i in cls)) > 1:
                    raise Unsupported('take splits a tie')
    return keep


def t_take(rel, lo, hi):
    keep = take_idx(rel.rows, rel.okeys, lo, hi)
    r = rel.copy()
    r.rows = [rel.rows[i] for i in keep]
    r.okeys = None if rel.okeys is None else [rel.okeys[i] for i in keep]
    return r


def t_filter(rel, e):
    keep = [i for i, row in enumerate(rel.rows) if ev(e, row)]
    r = rel.copy()
    r.rows = [rel.rows[i] for i in keep]
    r.okeys = None if rel.okeys is None else [rel.okeys[i] for i in keep]
    return r


def t_select(rel, items):
    # items: list of (newname or None, expr)
    cols, types = [], []
    for name, e in items:
        if name is None:
            assert e[0] == 'col'
            cols.append((None, rel.cols[e[1]][1]))
        else:
            cols.append((None, name))
        types.append(etype(e, rel))
    rows = [tuple(ev(e, row) for _, e in items) for row in rel.rows]
    return Rel(cols, types, rows, rel.okeys, False)


def t_derive(rel, items):
    r = rel.copy()
    r.cols = rel.cols + [(None, n) for n, _ in items]
    r.wc = rel.wc + [False] * len(items)
    r.types = rel.types + [etype(e, rel) for _, e in items]
    r.rows = [row + tuple(ev(e, row) for _, e in items) for row in rel.rows]
    return r


def t_window(rel, items, frame):
    """derive of window functions over the whole relation. items: (name, func)"""
    vals = window_eval(rel.rows, rel.okeys, [f for _, f in items], frame)
    r = rel.copy()
    r.cols = rel.cols + [(None, n) for n, _ in items]
    r.wc = rel.wc + [False] * len(items)
    r.types = rel.types + [ftype(f, rel) for _, f in items]
    r.rows = [row + v for row, v in zip(rel.rows, vals)]
    return r


def t_aggregate(rel, items):
    vals = tuple(agg_apply(f[1], [ev(f[2], row) for row in rel.rows], False) for _, f in items)
    return Rel([(None, n) for n, _ in items], [ftype(f, rel) for _, f in items], [vals], None, False)


def partition(rel, keyidx):
    groups = collections.OrderedDict()
    for i, row in enumerate(rel.rows):
        groups.setdefault(tuple(row[k] for k in keyidx), []).append(i)
    return groups


def t_group(rel, keyidx, inner):
    """inner: list of inner transforms; applied per partition. order in effect does not enter the group."""
    groups = partition(rel, keyidx)
    if inner[0][0] == 'aggregate':
        items = inner[0][1]
        rows = []
        for key, idxs in groups.items():
            vals = tuple(agg_apply(f[1], [ev(f[2], rel.rows[i]) for i in idxs], False) for _, f in items)
            rows.append(key + vals)
        cols = [(None, rel.cols[k][1]) for k in keyidx] + [(None, n) for n, _ in items]
        types = [rel.types[k] for k in keyidx] + [ftype(f, rel) for _, f in items]
        return Rel(cols, types, rows, None, False)
    out = None
    for key, idxs in groups.items():
        sub = Rel(rel.cols, rel.types, [rel.rows[i] for i in idxs], None, rel.wc)
        for t in inner:
            sub = apply(sub, t)
        if out is None:
            out = Rel(sub.cols, sub.types, [], None, sub.wc)
        out.rows.extend(sub.rows)
    if out is None:
        # no groups: determine the frame by applying to empty relation
        sub = Rel(rel.cols, rel.types, [], None, rel.wc)
        for t in inner:
            sub = apply(sub, t)
        out = Rel(sub.cols, sub.types, [], None, sub.wc)
    out.okeys = None
    # group puts the (known) key columns first, in key order; keys only known through a wildcard stay in place
    front = [k for k in keyidx if not out.wc[k]]
    perm = front + [i for i in range(len(out.cols)) if i not in front]
    out.cols = [out.cols[i] for i in perm]
    out.types = [out.types[i] for i in perm]
    out.wc = [out.wc[i] for i in perm]
    out.rows = [tuple(r[i] for i in perm) for r in out.rows]
    return out


def t_join(rel, side, right, cond):
    """cond: expr over concatenated row (left cols then right cols)"""
    nl, nr = len(rel.cols), len(right.cols)
    rows, okeys = [], []
    matched_r = set()
    for i, lrow in enumerate(rel.rows):
        hit = False
        for j, rrow in enumerate(right.rows):
            if ev(cond, lrow + rrow):
                rows.append(lrow + rrow)
                okeys.append(rel.okeys[i] if rel.okeys is not None else 0)
                matched_r.add(j)
                hit = True
        if not hit and side in ('left', 'full'):
            rows.append(lrow + (None,) * nr)
            okeys.append(rel.okeys[i] if rel.okeys is not None else 0)
    ordered = rel.okeys is not None
    if side in ('right', 'full'):
        extra = [(None,) * nl + rrow for j, rrow in enumerate(right.rows) if j not in matched_r]
        if extra:
            ordered = False
        rows.extend(extra)
    r = Rel(rel.cols + right.cols, rel.types + right.types, rows, okeys if ordered else None, rel.wc + right.wc)
    return r


REMOVE_MODE = 'all'   # 'all' = EXCEPT ALL / INTERSECT ALL (docs); 'join' = std.prql anti-join / inner join


def rows_eq_sql(a, b):
    # join-based equality: NULL never equal
    return all(x is not None and y is not None and x == y for x, y in zip(a, b))


def t_setop(rel, op, bottom):
    if op == 'append':
        return Rel([(None, n) for _, n in rel.cols], rel.types, rel.rows + bottom.rows, None, False)
    if REMOVE_MODE == 'all':
        cnt = collections.Counter(bottom.rows)
        rows, ok = [], []
        if op == 'remove':
            # remove one-for-one; which of identical rows go does not matter for values, but matters for order:
            # identical rows may carry different okeys -> result order ambiguous; drop order then
            amb = False
            for i, row in enumerate(rel.rows):
                if cnt[row] > 0:
                    cnt[row] -= 1
                else:
                    rows.append(row)
                    ok.append(rel.okeys[i] if rel.okeys is not None else 0)
        else:
            for i, row in enumerate(rel.rows):
                if cnt[row] > 0:
                    cnt[row] -= 1
                    rows.append(row)
                    ok.append(rel.okeys[i] if rel.okeys is not None else 0)
        # order of result: not specified for set ops -> unordered
        return Rel([(None, n) for _, n in rel.cols], rel.types, rows, None, False)
    else:
        rows = []
        if op == 'remove':
            for row in rel.rows:
                if not any(rows_eq_sql(row, b) for b in bottom.rows):
                    rows.append(row)
        else:
            for row in rel.rows:
                for b in bottom.rows:
                    if rows_eq_sql(row, b):
                        rows.append(row)
        return Rel([(None, n) for _, n in rel.cols], rel.types, rows, None, False)


def apply(rel, t):
    k = t[0]
    if k == 'sort': return t_sort(rel, t[1])
    if k == 'take': return t_take(rel, t[1], t[2])
    if k == 'filter': return t_filter(rel, t[1])
    if k == 'select': return t_select(rel, t[1])
    if k == 'derive': return t_derive(rel, t[1])
    if k == 'window': return t_window(rel, t[1], t[2])
    if k == 'aggregate': return t_aggregate(rel, t[1])
    if k == 'group': return t_group(rel, t[1], t[2])
    raise Exception('apply %r' % (t,))


# ---------------------------------------------------------------- printing transforms
def frame_text(frame):
    if frame is None:
        return None
    kind = frame[2] if len(frame) > 2 else 'rows'
    lo, hi = frame[0], frame[1]
    if kind == 'expanding':
        return 'expanding:true'
    if kind == 'rolling':
        return 'rolling:%d' % (1 - lo)
    return 'rows:%s..%s' % ('' if lo is None else ('(%d)' % lo if lo < 0 else str(lo)), '' if hi is None else ('(%d)' % hi if hi < 0 else str(hi)))


def pt(rel, t):
    """print transform t as applied to rel"""
    ref = rel.refable()
    k = t[0]
    if k == 'sort':
        return 'sort {%s}' % ', '.join(('-' if d else ('+' if random.random() < 0.2 else '')) + pe(e, ref) for d, e in t[1])
    if k == 'take':
        lo, hi = t[1], t[2]
        if lo == 1 and hi is not None:
            return 'take %d' % hi
        return 'take %d..%s' % (lo, '' if hi is None else hi)
    if k == 'filter':
        return 'filter %s' % pe(t[1], ref)
    if k == 'select':
        return 'select {%s}' % ', '.join((pe(e, ref) if n is None else '%s = %s' % (n, pe(e, ref))) for n, e in t[1])
    if k == 'derive':
        return 'derive {%s}' % ', '.join('%s = %s' % (n, pe(e, ref)) for n, e in t[1])
    if k == 'window':
        d = 'derive {%s}' % ', '.join('%s = %s' % (n, pf(f, ref)) for n, f in t[1])
        ft = frame_text(t[2])
        if ft is None:
            return d
        return 'window %s (%s)' % (ft, d)
    if k == 'aggregate':
        return 'aggregate {%s}' % ', '.join('%s = %s' % (n, pf(f, ref)) for n, f in t[1])
    if k == 'group':
        keys = ', '.join(ref[i] for i in t[1])
        parts = []
        sub = Rel(rel.cols, rel.types, rel.rows, None, rel.wc, set(t[1]))
        for it in t[2]:
            parts.append(pt(sub, it))
            try:
                sub = apply(sub, it)
            except Unsupported:
                # printing only needs the frame; apply on empty
                sub = apply(Rel(sub.cols, sub.types, [], None, sub.wc, sub.hidden), it)
        return 'group {%s} (%s)' % (keys, ' | '.join(parts))
    raise Exception(t)


# ---------------------------------------------------------------- generator
class Gen:
    def __init__(self, rng, opts):
        self.rng = rng
        self.n = 0
        self.opts = opts
        self.lets = []     # (name, text, Rel)
        self.alias_n = 0

    def fresh(self, p='c'):
        self.n += 1
        return '%s%d' % (p, self.n)

    # ---- expressions
    def int_cols(self, rel):
        ref = rel.refable()
        return [i for i in ref if rel.types[i] == 'int']

    def int_expr(self, rel, depth=2):
        rng = self.rng
        ic = self.int_cols(rel)
        if depth <= 0 or rng.random() < 0.45:
            if ic and rng.random() < 0.8:
                return ('col', rng.choice(ic))
            return ('lit', rng.randint(0, 5))
        c = rng.random()
        if c < 0.7 or not ic:
            return ('bin', rng.choice(['+', '-', '*', '+', '-']), self.int_expr(rel, depth - 1), self.int_expr(rel, depth - 1))
        return ('coalesce', ('col', rng.choice(ic)), ('lit', rng.randint(0, 3)))

    def bool_expr(self, rel, depth=2):
        rng = self.rng
        ref = rel.refable()
        c = rng.random()
        if depth > 0 and c < 0.25:
            return ('bin', rng.choice(['&&', '||']), self.bool_expr(rel, depth - 1), self.bool_expr(rel, depth - 1))
        if depth > 0 and c < 0.3:
            return ('not', self.bool_expr(rel, depth - 1))
        tc = [i for i in ref if rel.types[i] == 'text']
        if tc and c < 0.45:
            i = rng.choice(tc)
            vals = [r[i] for r in rel.rows if r[i] is not None] or ['x']
            return ('bin', rng.choice(['==', '!=']), ('col', i), ('lit', rng.choice(vals)))
        anyc = [i for i in ref if rel.types[i] in ('int', 'text')]
        if anyc and c < 0.55:
            return ('isnull', ('col', rng.choice(anyc)), rng.random() < 0.5)
        l = self.int_expr(rel, 1)
        # choose literal near data
        if rng.random() < 0.6:
            vals = [ev(l, r) for r in rel.rows]
            vals = [v for v in vals if v is not None] or [1]
            r = ('lit', rng.choice(vals))
        else:
            r = self.int_expr(rel, 1)
        return ('bin', rng.choice(['==', '!=', '<', '<=', '>', '>=']), l, r)

    def agg_func(self, rel, window=False):
        rng = self.rng
        ic = self.int_cols(rel)
        fn = rng.choice(['sum', 'count', 'min', 'max', 'average', 'sum'])
        if not ic:
            return None
        if rng.random() < 0.8:
            e = ('col', rng.choice(ic))
        else:
            e = self.int_expr(rel, 1)
            if e[0] == 'lit':
                e = ('col', rng.choice(ic))
        return ('agg', fn, e)

    def win_func(self, rel):
        rng = self.rng
        ic = self.int_cols(rel)
        if not ic:
            return ('row_number',)
        c = rng.random()
        if c < 0.45:
            return self.agg_func(rel, True)
        if c < 0.6:
            return ('lag', rng.randint(1, 2), ('col', rng.choice(ic)))
        if c < 0.7:
            return ('lead', rng.randint(1, 2), ('col', rng.choice(ic)))
        if c < 0.8:
            return ('rank', ('col', rng.choice(ic)))
        if c < 0.85:
            return ('rank_dense', ('col', rng.choice(ic)))
        return ('row_number',)

    # ---- transforms; each returns transform tuple or None
    def g_sort(self, rel, total_p=0.85):
        rng = self.rng
        ref = rel.refable()
        cand = [i for i in ref if rel.types[i] in ('int', 'text', 'float')]
        if not cand or len(rel.rows) < 1:
            return None
        rng.shuffle(cand)
        keys = []
        nk = rng.randint(1, 2)
        for i in cand[:nk]:
            if rel.types[i] == 'int' and rng.random() < 0.15:
                e = ('bin', rng.choice(['+', '-', '*']), ('col', i), ('lit', rng.randint(1, 3)))
            else:
                e = ('col', i)
            keys.append((rng.random() < 0.4, e))
        if rng.random() < total_p:
            # extend until total on data
            rest = cand[nk:]
            def total(keys):
                ks = [tuple(ev(e, r) for _, e in keys) for r in rel.rows]
                return len(set(ks)) == len(ks)
            while not total(keys) and rest:
                keys.append((rng.random() < 0.4, ('col', rest.pop())))
        return ('sort', keys)

    def g_take(self, rel):
        rng = self.rng
        n = len(rel.rows)
        if rng.random() < 0.6:
            lo, hi = 1, rng.randint(1, max(1, n + 1))
        else:
            lo = rng.randint(1, max(1, n))
            hi = None if rng.random() < 0.15 else rng.randint(lo, max(lo, n + 1))
        return ('take', lo, hi)

    def g_filter(self, rel):
        return ('filter', self.bool_expr(rel))

    def g_select(self, rel, keep_p=0.6):
        rng = self.rng
        ref = rel.refable()
        items = []
        used = set()
        for i in sorted(ref):
            if rng.random() < keep_p:
                n = rel.cols[i][1]
                if n in used:
                    items.append((self.fresh(), ('col', i)))
                elif rng.random() < 0.1:
                    items.append((self.fresh(), ('col', i)))
                else:
                    used.add(n)
                    items.append((None, ('col', i)))
        if rng.random() < 0.4 and self.int_cols(rel):
            e = self.int_expr(rel)
            if e[0] != 'col':
                items.append((self.fresh(), e))
        if not items:
            i = rng.choice(sorted(ref))
            items.append((None, ('col', i)))
        if rng.random() < 0.3:
            rng.shuffle(items)
        return ('select', items)

    def g_derive(self, rel):
        rng = self.rng
        items = []
        for _ in range(rng.randint(1, 2)):
            if rng.random() < 0.8:
                e = self.int_expr(rel)
                if e[0] == 'col' and rng.random() < 0.7:
                    e = ('bin', '+', e, ('lit', 1))
            else:
                e = self.bool_expr(rel, 1)
            items.append((self.fresh(), e))
        return ('derive', items)

    def g_window(self, rel):
        rng = self.rng
        items = []
        for _ in range(rng.randint(1, 2)):
            items.append((self.fresh('w'), self.win_func(rel)))
        c = rng.random()
        if c < 0.3:
            frame = None
        elif c < 0.5:
            frame = (None, 0, 'expanding')
        elif c < 0.7:
            n = rng.randint(1, 3)
            frame = (1 - n, 0, 'rolling')
        else:
            lo = rng.choice([None, -2, -1, 0, 1])
            hi = rng.choice([None, -1, 0, 1, 2])
            if lo is not None and hi is not None and lo > hi:
                lo, hi = hi, lo
            frame = (lo, hi, 'rows')
        return ('window', items, frame)

    def g_aggregate(self, rel):
        rng = self.rng
        items = []
        for _ in range(rng.randint(1, 3)):
            f = self.agg_func(rel)
            if f is None:
                return None
            items.append((self.fresh('s'), f))
        return ('aggregate', items)

    def g_group(self, rel):
        rng = self.rng
        ref = rel.refable()
        cand = [i for i in ref if rel.types[i] in ('int', 'text')]
        if not cand:
            return None
        c = rng.random()
        if c < 0.12 and not rel.wildcard and len(ref) == len(rel.cols):
            keys = sorted(ref)      # distinct idiom
            return ('group', keys, [('take', 1, 1)])
        # prefer low-cardinality keys
        def card(i):
            return len(set(r[i] for r in rel.rows))
        cand.sort(key=lambda i: (card(i) > max(2, len(rel.rows) // 2), rng.random()))
        keys = cand[:rng.choice([1, 1, 1, 2])]
        sub = Rel(rel.cols, rel.types, rel.rows, None, rel.wc, set(keys))
        if c < 0.45:
            a = self.g_aggregate(sub)
            if a is None:
                return None
            return ('group', keys, [a])
        inner = []
        s = self.g_sort(sub, 0.95)
        if s is None:
            return None
        if c < 0.75:
            inner = [s, self.g_take_small()]
            if rng.random() < 0.15:
                inner = [self.g_take_small()]
        elif c < 0.9:
            inner = [s, self.g_window(apply(sub, s))]
        else:
            w = self.g_window(sub)
            inner = [w]
        return ('group', keys, inner)

    def g_take_small(self):
        rng = self.rng
        if rng.random() < 0.7:
            return ('take', 1, rng.randint(1, 3))
        lo = rng.randint(1, 3)
        return ('take', lo, rng.choice([None, lo, lo + 1, lo + 2]))

    # ---- sub pipelines
    def source(self, allow_let=True):
        """returns (text, Rel)"""
        rng = self.rng
        if allow_let and self.lets and rng.random() < 0.6:
            name, _, rel = rng.choice(self.lets)
            r = rel.copy()
            r.cols = [(name, n) for _, n in rel.cols]
            r.okeys = None if self.opts.get('let_unordered', False) else r.okeys
            return 'from %s' % name, r, name
        t = rng.choice(['t1', 't2', 't1', 't2', 't3'])
        cols, types, rows = TABLES[t]
        return 'from %s' % t, Rel([(t, c) for c in cols], types, rows, None, True), t

    def pipeline(self, nsteps, allow_let=True, allow_join=True, must_end_select=None, top=False):
        """generate a pipeline: returns (list of text lines, Rel, srcname)"""
        rng = self.rng
        text, rel, src = self.source(allow_let)
        lines = [text]
        if rel.wildcard and rng.random() < 0.5:
            t = ('select', [(None, ('col', i)) for i in range(len(rel.cols))])
            lines.append(pt(rel, t))
            rel = apply(rel, t)
        steps = 0
        tries = 0
        while steps < nsteps and tries < 60:
            tries += 1
            kind = rng.choices(
                ['sort', 'take', 'filter', 'select', 'derive', 'window', 'aggregate', 'group', 'join', 'setop', 'sorttake'],
                [14, 14, 10, 8, 8, 10, 4, 12, 9 if allow_join else 0, 7 if allow_join else 0, 6])[0]
            try:
                if kind == 'join':
                    res = self.g_join(rel, src)
                    if res is None:
                        continue
                    line, rel = res
                    lines.append(line)
                    steps += 1
                    continue
                if kind == 'setop':
                    res = self.g_setop(rel)
                    if res is None:
                        continue
                    ls, rel = res
                    lines.extend(ls)
                    steps += 1
                    continue
                if kind == 'sorttake':
                    s = self.g_sort(rel, 1.0)
                    if s is None:
                        continue
                    r2 = apply(rel, s)
                    t = self.g_take(r2)
                    r3 = apply(r2, t)
                    lines.append(pt(rel, s)); lines.append(pt(r2, t))
                    rel = r3
                    steps += 2
                    continue
                g = getattr(self, 'g_' + kind)
                t = g(rel)
                if t is None:
                    continue
                if kind == 'take' and rel.okeys is None and len(rel.rows) > 1:
                    continue
                new = apply(rel, t)
                if len(new.refable()) == 0:
                    continue
                lines.append(pt(rel, t))
                rel = new
                steps += 1
            except Unsupported:
                continue
        return lines, rel, src

    def g_join(self, rel, src):
        rng = self.rng
        rlines, right, rsrc = self.pipeline(rng.randint(0, 2), allow_let=True, allow_join=False)
        self.alias_n += 1
        alias = 'r%d' % self.alias_n
        right = right.copy()
        right.cols = [(alias, n) for _, n in right.cols]
        side = rng.choice(['inner', 'inner', 'left', 'left', 'right', 'full'])
        lref = rel.refable()
        rref = right.refable()
        nl = len(rel.cols)
        # condition
        lint = [i for i in lref if rel.types[i] == 'int']
        rint = [i for i in rref if right.types[i] == 'int']
        if not lint or not rint:
            return None
        common = [(i, j) for i in lint for j in rint if rel.cols[i][1] == right.cols[j][1] and rel.names().count(rel.cols[i][1]) == 1 and right.names().count(right.cols[j][1]) == 1]
        c = rng.random()
        condtext = None
        if common and c < 0.5:
            i, j = rng.choice(common)
            cond = ('bin', '==', ('col', i), ('col', nl + j))
            condtext = '(==%s)' % rel.cols[i][1]
        else:
            i, j = rng.choice(lint), rng.choice(rint)
            op = '==' if c < 0.85 else rng.choice(['<', '>=', '!='])
            cond = ('bin', op, ('col', i), ('col', nl + j))
            parts = ['this.%s %s that.%s' % (rel.cols[i][1], op, right.cols[j][1])]
            if rel.names().count(rel.cols[i][1]) != 1 or right.names().count(right.cols[j][1]) != 1:
                return None
            if rng.random() < 0.3:
                # extra condition on the right or left side only
                if rng.random() < 0.5:
                    j2 = rng.choice(rint)
                    if right.names().count(right.cols[j2][1]) != 1: return None
                    v = rng.randint(1, 5)
                    cond = ('bin', '&&', cond, ('bin', '>', ('col', nl + j2), ('lit', v)))
                    parts.append('that.%s > %d' % (right.cols[j2][1], v))
                else:
                    i2 = rng.choice(lint)
                    if rel.names().count(rel.cols[i2][1]) != 1: return None
                    v = rng.randint(1, 5)
                    cond = ('bin', '&&', cond, ('bin', '<', ('col', i2), ('lit', v)))
                    parts.append('this.%s < %d' % (rel.cols[i2][1], v))
            condtext = '(%s)' % ' && '.join(parts)
        if len(rlines) == 1:
            rtext = '%s=%s' % (alias, rlines[0][5:])
        else:
            rtext = '%s=(%s)' % (alias, ' | '.join(rlines))
        sidetext = '' if side == 'inner' and rng.random() < 0.5 else 'side:%s ' % side
        line = 'join %s%s %s' % (sidetext, rtext, condtext)
        new = t_join(rel, side, right, cond)
        return line, new

    def g_setop(self, rel):
        rng = self.rng
        lines = []
        ref = rel.refable()
        if rel.wildcard or len(ref) != len(rel.cols) or len(set(rel.names())) != len(rel.cols):
            # make the frame explicit
            idx = sorted(ref)
            used = set()
            items = []
            for i in idx:
                n = rel.cols[i][1]
                if n in used:
                    items.append((self.fresh(), ('col', i)))
                else:
                    used.add(n)
                    items.append((None, ('col', i)))
            t = ('select', items)
            lines.append(pt(rel, t))
            rel = apply(rel, t)
        if any(t not in ('int', 'text') for t in rel.types):
            return None
        if rng.random() < 0.35 and len(rel.cols) > 2:
            # narrow to get duplicates
            idx = sorted(rng.sample(range(len(rel.cols)), rng.randint(1, 2)))
            t = ('select', [(None, ('col', i)) for i in idx])
            lines.append(pt(rel, t))
            rel = apply(rel, t)
        op = rng.choice(['append', 'append', 'remove', 'intersect'])
        # bottom
        for _ in range(10):
            blines, b, _src = self.pipeline(rng.randint(0, 2), allow_let=True, allow_join=False)
            bref = b.refable()
            items = []
            ok = True
            for ty, (q, n) in zip(rel.types, rel.cols):
                cands = [i for i in bref if b.types[i] == ty]
                same = [i for i in cands if b.cols[i][1] == n]
                if same and rng.random() < 0.8:
                    items.append((None, ('col', same[0])))
                elif cands:
                    i = rng.choice(cands)
                    items.append((n if (rng.random() < 0.7 and n not in b.names()) else self.fresh(), ('col', i)))
                else:
                    ok = False
                    break
            if not ok:
                continue
            # names in a select must be unique
            nm = [(n if n is not None else b.cols[e[1]][1]) for n, e in items]
            if len(set(nm)) != len(nm):
                continue
            t = ('select', items)
            blines.append(pt(b, t))
            b = apply(b, t)
            new = t_setop(rel, op, b)
            lines.append('%s (%s)' % (op, ' | '.join(blines)))
            return lines, new
        return None

    def program(self):
        rng = self.rng
        out = []
        nlets = rng.choice([0, 0, 0, 1, 1, 2])
        for i in range(nlets):
            lines, rel, _ = self.pipeline(rng.randint(1, 3), allow_let=(i > 0), allow_join=rng.random() < 0.3)
            # a let table must have unique column names and be fully refable
            if len(set(rel.names())) != len(rel.cols):
                ref = rel.refable()
                used, items = set(), []
                for j in sorted(ref):
                    n = rel.cols[j][1]
                    if n in used:
                        items.append((self.fresh(), ('col', j)))
                    else:
                        used.add(n); items.append((None, ('col', j)))
                t = ('select', items)
                lines.append(pt(rel, t))
                rel = apply(rel, t)
            name = 'x%d' % (i + 1)
            out.append('let %s = (\n  %s\n)' % (name, '\n  '.join(lines)))
            rel = rel.copy()
            self.lets.append((name, None, rel))
        lines, rel, _ = self.pipeline(rng.randint(2, 7))
        out.append('\n'.join(lines))
        return '\n\n'.join(out) + '\n', rel


# ---------------------------------------------------------------- running
def compile_prql(text):
    p = subprocess.run([PRQLC, 'compile', '--target', 'sql.sqlite', '--hide-signature-comment'], input=text, capture_output=True, text=True,
                       env=dict(os.environ, RUST_BACKTRACE='0', NO_COLOR='1'))
    if p.returncode != 0:
        return None, p.stderr
    return p.stdout, None


def norm(v):
    if isinstance(v, bool): return int(v)
    if isinstance(v, float): return round(v, 6)
    return v


def final_frame(text):
    p = subprocess.run([PRQLC, 'debug', 'lineage', '--format', 'json'], input=text, capture_output=True, text=True,
                       env=dict(os.environ, RUST_BACKTRACE='0', NO_COLOR='1'))
    if p.returncode != 0:
        return None
    try:
        d = json.loads(p.stdout)
        fr = d['frames'][-1][1]['columns']
    except Exception:
        return None
    res = []
    for c in fr:
        if 'Single' in c:
            n = c['Single']['name']
            res.append(n[-1] if n else '?')
        else:
            return None
    return res


def permute_to(rel, names):
    """reorder model columns to the given names (same multiset)"""
    avail = list(enumerate(rel.names()))
    perm = []
    for n in names:
        for k, (i, m) in enumerate(avail):
            if m == n:
                perm.append(i)
                del avail[k]
                break
    r = rel.copy()
    r.cols = [rel.cols[i] for i in perm]
    r.types = [rel.types[i] for i in perm]
    r.wc = [rel.wc[i] for i in perm]
    r.rows = [tuple(row[i] for i in perm) for row in rel.rows]
    return r


def compare(rel, names, rows, lin=None):
    exp_names = rel.names()
    import re
    names = [re.sub(r':\d+$', '', n) for n in names]
    if lin is not None and lin == names and names != exp_names and sorted(names) == sorted(exp_names):
        return compare(permute_to(rel, names), names, rows)
    if list(names) != exp_names and len(names) == len(exp_names) and all(a == b or re.match(r'_expr_\d+$', a) for a, b in zip(names, exp_names)):
        sub = compare(rel, exp_names, rows)
        return 'RENAME ' + (sub or '')
    if list(names) != exp_names:
        keep = [i for i, n in enumerate(names) if not re.match(r'_expr_\d+$', n)]
        if [names[i] for i in keep] == exp_names:
            sub = compare(rel, exp_names, [tuple(r[i] for i in keep) for r in rows])
            return 'LEAK ' + (sub or '')
    if list(names) != exp_names:
        return 'columns: expected %r got %r' % (exp_names, list(names))
    exp = [tuple(norm(v) for v in r) for r in rel.rows]
    act = [tuple(norm(v) for v in r) for r in rows]
    if collections.Counter(exp) != collections.Counter(act):
        return 'rows differ (multiset)'
    if rel.okeys is not None:
        i = 0
        n = len(exp)
        while i < n:
            j = i
            while j < n and rel.okeys[j] == rel.okeys[i]:
                j += 1
            if collections.Counter(exp[i:j]) != collections.Counter(act[i:j]):
                return 'order differs at positions %d..%d' % (i, j)
            i = j
    return None


def run_one(seed, opts, db, verbose=False):
    rng = random.Random(seed)
    random.seed(seed)
    g = Gen(rng, opts)
    try:
        text, rel = g.program()
    except Unsupported:
        return 'gen-unsupported', None
    sql, err = compile_prql(text)
    if sql is None:
        return 'compile-error', dict(seed=seed, prql=text, err=err)
    try:
        cur = db.execute(sql)
        names = [d[0] for d in cur.description]
        rows = cur.fetchall()
    except Exception as ex:
        return 'sql-error', dict(seed=seed, prql=text, sql=sql, err=str(ex))
    diff = compare(rel, names, rows)
    if diff and diff.startswith('columns'):
        lin = final_frame(text)
        diff = compare(rel, names, rows, lin)
        if diff:
            diff += ' lineage=%r' % (lin,)
    if diff:
        return 'mismatch', dict(seed=seed, prql=text, sql=sql, diff=diff, expected=[list(r) for r in rel.rows], exp_names=rel.names(),
                                okeys=rel.okeys, actual=[list(r) for r in rows], names=names)
    return 'ok', dict(seed=seed, prql=text, sql=sql, n=len(rows))


def main():
    global REMOVE_MODE
    ap = argparse.ArgumentParser()
    ap.add_argument('--start', type=int, default=0)
    ap.add_argument('--n', type=int, default=1000)
    ap.add_argument('--remove-mode', default='all')
    ap.add_argument('--out', default=OUT + '/mismatches.jsonl')
    ap.add_argument('--show', type=int, default=None)
    ap.add_argument('--let-unordered', action='store_true')
    a = ap.parse_args()
    REMOVE_MODE = a.remove_mode
    db = make_db()
    opts = {'let_unordered': a.let_unordered}
    if a.show is not None:
        st, info = run_one(a.show, opts, db)
        print(st)
        if info:
            for k, v in info.items():
                print('==', k); print(v)
        return
    stats = collections.Counter()
    errs = collections.Counter()
    with open(a.out, 'w') as f:
        for seed in range(a.start, a.start + a.n):
            try:
                st, info = run_one(seed, opts, db)
            except Exception as ex:
                import traceback
                stats['harness-error'] += 1
                print('harness error seed', seed, repr(ex))
                traceback.print_exc()
                continue
            stats[st] += 1
            if st == 'mismatch':
                f.write(json.dumps(info) + '\n')
                f.flush()
            if st in ('compile-error', 'sql-error'):
                msg = info['err'].strip().split('\n')
                key = st + ': ' + ' '.join(l.strip() for l in msg if l.strip() and not l.strip().startswith(('│', '╭', '─', '┬', '╰')))[:110]
                errs[key] += 1
                with open(a.out + '.errs', 'a') as ef:
                    ef.write(json.dumps(dict(st=st, **info)) + '\n')
    print(stats)
    for k, v in errs.most_common(40):
        print(v, k)


if __name__ == '__main__':
    main()
