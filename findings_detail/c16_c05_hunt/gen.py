#!/usr/bin/env python3
"""Random PRQL program generator with a frame model. Writes N programs to a directory,
each with a `# expect:` line giving the frame the model predicts."""
import random, sys, os

SCHEMA = {
    'a': ['id', 'x', 'y', 'z'],
    'b': ['id', 'x', 'w'],
    'c': ['id', 'k', 'v'],
    't': ['a', 'b', 'c'],
    'u': ['a', 'b', 'd'],
}
TABLES = ['a', 'b', 'c']  # t/u have column names equal to table names; avoid by default


class G:
    def __init__(self, rnd, wildcard=False):
        self.r = rnd
        self.n_alias = 0
        self.lets = []
        self.wildcard = wildcard
        self.has_wild = False

    def fresh(self, p='q'):
        self.n_alias += 1
        return f'{p}{self.n_alias}'

    def named(self, frame):
        names = [n for n in frame if n is not None]
        return [n for n in names if names.count(n) == 1]

    def expr(self, frame, depth=0):
        cols = self.named(frame)
        r = self.r
        if not cols:
            return str(r.randint(1, 5))
        k = r.random()
        c = r.choice(cols)
        if k < 0.4:
            return f'{c} + {r.randint(1, 3)}'
        if k < 0.6:
            return f'{c} * {r.choice(cols)}'
        if k < 0.7:
            return f'{c} - {r.choice(cols)}'
        if k < 0.8:
            return f'case [{c} > 2 => {r.choice(cols)}, true => 0]'
        if k < 0.9:
            return f'-{c}'
        return f'{c} + {r.choice(cols)} + 1'

    def cond(self, frame):
        cols = self.named(frame)
        if not cols:
            return 'true'
        return f'{self.r.choice(cols)} {self.r.choice([">", "<", ">=", "!="])} {self.r.randint(0, 4)}'

    def add(self, frame, name):
        # PRQL: earlier column of the same name loses its name
        if name is not None:
            frame = [None if n == name else n for n in frame]
        return frame + [name]

    def source(self, known=True):
        r = self.r
        t = r.choice(TABLES)
        cols = list(SCHEMA[t])
        if known:
            k = r.randint(2, len(cols))
            sel = cols[:k] if r.random() < 0.5 else r.sample(cols, k)
            return [f'from {t}', f'select {{{", ".join(sel)}}}'], sel
        return [f'from {t}'], None

    def sub(self, arity=None, names=None):
        """A known-frame sub-pipeline in parentheses; returns (text, frame)."""
        r = self.r
        lines, frame = self.source(True)
        if names is not None:
            # same names as top: build select with aliases from expressions
            t = lines[0].split()[1]
            cols = SCHEMA[t]
            items = []
            for n in names:
                c = r.choice(cols)
                items.append(f'{n} = {c}' if n is not None and n != c else (c if n is not None else f'{c} + 1'))
            # avoid `x, x`
            lines = [lines[0], f'select {{{", ".join(items)}}}']
            frame = list(names)
        else:
            for _ in range(r.randint(0, 2)):
                lines, frame = self.step(lines, frame, allow_rel=False)
        return '(' + ' | '.join(lines) + ')', frame

    def step(self, lines, frame, allow_rel=True):
        r = self.r
        cols = self.named(frame)
        ops = ['select', 'derive', 'filter', 'sort', 'take', 'group_take', 'group_agg', 'window', 'select_expr',
               'select_not', 'group_sort_take', 'sort_expr', 'agg', 'take_range', 'group_derive']
        if allow_rel:
            ops += ['join', 'join', 'append', 'remove', 'intersect', 'join_let', 'loop']
        op = r.choice(ops)
        if not cols and op not in ('take', 'take_range'):
            return lines + ['take 5'], frame
        if op == 'select':
            k = r.randint(1, len(cols))
            sel = r.sample(cols, k)
            items, nf = [], []
            for c in sel:
                if r.random() < 0.25:
                    al = self.fresh()
                    items.append(f'{al} = {c}')
                    nf = self.add(nf, al)
                else:
                    items.append(c)
                    nf = self.add(nf, c)
            return lines + [f'select {{{", ".join(items)}}}'], nf
        if op == 'select_expr':
            k = r.randint(1, min(3, len(cols)))
            sel = r.sample(cols, k)
            items, nf = [], []
            for c in sel:
                items.append(c)
                nf = self.add(nf, c)
            for _ in range(r.randint(1, 2)):
                if r.random() < 0.5:
                    items.append(self.expr(frame))
                    nf = self.add(nf, None)
                else:
                    al = self.fresh()
                    items.append(f'{al} = {self.expr(frame)}')
                    nf = self.add(nf, al)
            return lines + [f'select {{{", ".join(items)}}}'], nf
        if op == 'select_not':
            if len(cols) < 2:
                return lines, frame
            ex = r.sample(cols, r.randint(1, len(cols) - 1))
            nf = [n for n in frame if n not in ex and n is not None and frame.count(n) == 1]
            return lines + [f'select !{{{", ".join(ex)}}}'], nf
        if op == 'derive':
            al = self.fresh()
            return lines + [f'derive {{{al} = {self.expr(frame)}}}'], self.add(frame, al)
        if op == 'derive_shadow':
            c = r.choice(cols)
            return lines + [f'derive {{{c} = {self.expr(frame)}}}'], self.add(frame, c)
        if op == 'filter':
            return lines + [f'filter {self.cond(frame)}'], frame
        if op == 'sort':
            k = r.randint(1, min(2, len(cols)))
            s = [('-' if r.random() < 0.3 else '') + c for c in r.sample(cols, k)]
            return lines + [f'sort {{{", ".join(s)}}}'], frame
        if op == 'sort_expr':
            return lines + [f'sort {{{self.expr(frame)}}}'], frame
        if op == 'take':
            return lines + [f'take {r.randint(1, 4)}'], frame
        if op == 'take_range':
            a = r.randint(1, 3)
            return lines + [f'take {a}..{a + r.randint(0, 3)}'], frame
        if op in ('group_take', 'group_sort_take', 'group_derive'):
            k = r.randint(1, min(2, len(cols)))
            by = r.sample(cols, k)
            rest = [c for c in cols if c not in by]
            if not rest:
                return lines, frame
            nf = by + [n for n in frame if n not in by and n is not None and frame.count(n) == 1]
            rframe = rest
            if op == 'group_take':
                body = f'take {r.randint(1, 2)}'
            elif op == 'group_sort_take':
                sc = r.choice(rest) if rest and r.random() < 0.7 else self.expr(rframe)
                body = f'sort {{{sc}}} | take {r.randint(1, 2)}'
            else:
                al = self.fresh('w')
                fn = r.choice(['row_number this', f'sum {r.choice(rest)}', f'rank {r.choice(rest)}', f'lag 1 {r.choice(rest)}'])
                sc = r.choice(rest)
                body = f'sort {sc} | derive {{{al} = {fn}}}'
                nf = self.add(nf, al)
            return lines + [f'group {{{", ".join(by)}}} ({body})'], nf
        if op == 'group_agg':
            k = r.randint(1, min(2, len(cols)))
            by = r.sample(cols, k)
            rest = [c for c in cols if c not in by]
            if not rest:
                return lines, frame
            items, nf = [], list(by)
            for _ in range(r.randint(1, 2)):
                fn = r.choice(['sum', 'max', 'min', 'count'])
                c = r.choice(rest)
                if r.random() < 0.8:
                    al = self.fresh('g')
                    items.append(f'{al} = {fn} {c}')
                    nf = self.add(nf, al)
                else:
                    items.append(f'{fn} {c}')
                    nf = self.add(nf, None)
            return lines + [f'group {{{", ".join(by)}}} (aggregate {{{", ".join(items)}}})'], nf
        if op == 'agg':
            items, nf = [], []
            for _ in range(r.randint(1, 2)):
                fn = r.choice(['sum', 'max', 'min', 'count'])
                al = self.fresh('g')
                items.append(f'{al} = {fn} {r.choice(cols)}')
                nf = self.add(nf, al)
            return lines + [f'aggregate {{{", ".join(items)}}}'], nf
        if op == 'window':
            al = self.fresh('w')
            fn = r.choice(['row_number this', f'sum {r.choice(cols)}', f'lag 1 {r.choice(cols)}'])
            if r.random() < 0.5:
                return lines + [f'derive {{{al} = {fn}}}'], self.add(frame, al)
            return lines + [f'window rows:-1..0 (derive {{{al} = {fn}}})'], self.add(frame, al)
        if op == 'join':
            sub, sf = self.sub()
            lc = r.choice(cols)
            rn = self.named(sf)
            if not rn:
                return lines, frame
            rc = r.choice(rn)
            side = r.choice(['', 'side:left ', 'side:full '])
            if lc == rc and r.random() < 0.6:
                cond = f'(=={lc})'
            else:
                cond = f'(this.{lc} == that.{rc})'
            nf = list(frame) + list(sf)
            return lines + [f'join {side}{sub} {cond}'], nf
        if op == 'join_let':
            sub, sf = self.sub()
            nm = self.fresh('tb')
            self.lets.append(f'let {nm} = {sub}')
            lc = r.choice(cols)
            rn = self.named(sf)
            if not rn:
                return lines, frame
            rc = r.choice(rn)
            nf = list(frame) + list(sf)
            return lines + [f'join {nm} (this.{lc} == that.{rc})'], nf
        if op in ('remove', 'intersect') and (len(cols) != len(frame)):
            return lines, frame
        if op in ('append', 'remove', 'intersect'):
            sub, sf = self.sub(names=frame if r.random() < 0.6 else [self.fresh('u') for _ in frame])
            return lines + [f'{op} {sub}'], frame
        if op == 'loop':
            # keep frame; body re-selects every named column
            if any(n is None for n in frame) or len(cols) != len(frame):
                return lines, frame
            c = cols[0]
            items = [f'{n} = {n} + 1' if n == c else n for n in frame]
            return lines + [f'loop (filter {c} < 4 | select {{{", ".join(items)}}})'], frame
        return lines, frame

    def program(self):
        r = self.r
        if self.wildcard:
            t = r.choice(TABLES)
            lines, frame = [f'from {t}'], list(SCHEMA[t])
        else:
            lines, frame = self.source(True)
        for _ in range(r.randint(1, 6)):
            lines, frame = self.step(lines, frame)
        exp = ','.join('?' if n is None else n for n in frame)
        if self.wildcard:
            return '\n'.join(self.lets + lines) + '\n'
        return f'# expect: {exp}\n' + '\n'.join(self.lets + lines) + '\n'


def main():
    d = sys.argv[1]
    n = int(sys.argv[2])
    seed = int(sys.argv[3]) if len(sys.argv) > 3 else 1
    os.makedirs(d, exist_ok=True)
    for i in range(n):
        g = G(random.Random(seed * 100000 + i), wildcard=len(sys.argv) > 4)
        open(f'{d}/g{seed}_{i:05d}.prql', 'w').write(g.program())


main()
