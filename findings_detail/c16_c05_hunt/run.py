#!/usr/bin/env python3
"""Runs rq_check (C16) on a set of .prql files and then the C05 check:
executes the sqlite SQL on in-memory tables and compares cursor.description with the
expected frame given by a `# expect: a,b,?,c` comment (`?` = unnamed column) when present,
and with the RQ's declared columns / lineage otherwise."""
import sys, json, sqlite3, subprocess, glob, os, re

RQ = '/tmp/wt-huntA-target/debug/examples/rq_check'

SCHEMA = {
    'a': ['id', 'x', 'y', 'z'],
    'b': ['id', 'x', 'w'],
    'c': ['id', 'k', 'v'],
    't': ['a', 'b', 'c'],
    'u': ['a', 'b', 'd'],
    'n': ['n'],
    'employees': ['emp_no', 'name', 'dept', 'salary', 'manager_no'],
}


def mkdb():
    db = sqlite3.connect(':memory:')
    for t, cols in SCHEMA.items():
        db.execute(f'CREATE TABLE {t} ({", ".join(c + " INTEGER" for c in cols)})')
        for r in range(1, 6):
            vals = [(r * (i + 2) + i) % 7 for i in range(len(cols))]
            vals[0] = r
            db.execute(f'INSERT INTO {t} VALUES ({",".join("?" * len(cols))})', vals)
    return db


def expand_rq_columns(d):
    """Expected result names from RQ declared columns, when no wildcard. None if wildcard present."""
    cols = d['columns']
    if '*' in cols:
        return None
    return cols


def check_one(d, src, db):
    out = []
    name = d['name']
    if d['status'] != 'ok':
        return d['status'], [d.get('error', '')[:300]]
    for v in d['violations']:
        out.append('C16 ' + v)
    if d['sql'] is None:
        out.append('SQLGEN-ERROR ' + (d['sql_error'] or '')[:300])
        return 'ok', out
    m = re.search(r'^#\s*expect:\s*(.*)$', src, re.M)
    expect = None
    if m:
        expect = [None if x.strip() == '?' else x.strip() for x in m.group(1).split(',')] if m.group(1).strip() else []
    try:
        cur = db.execute(d['sql'])
        desc = [c[0] for c in cur.description]
    except Exception as e:
        out.append(f'SQLITE-ERROR {e}')
        return 'ok', out
    rqexp = expand_rq_columns(d)
    for label, exp in (('expect', expect), ('rq-columns', rqexp)):
        if exp is None:
            continue
        if len(exp) != len(desc):
            out.append(f'C05 COUNT vs {label}: expected {exp} got {desc}')
            continue
        for i, (e, g) in enumerate(zip(exp, desc)):
            if e is not None and e != g:
                out.append(f'C05 NAME vs {label}: col {i} expected {e!r} got {g!r}; all: expected {exp} got {desc}')
                break
    # generated names must not surface when the frame gives no reason
    if expect is None and rqexp is None:
        for g in desc:
            if re.match(r'^_expr_\d+$', g):
                out.append(f'C05? generated name {g} in result {desc} (frame has wildcard: check by hand)')
    return 'ok', out


def main():
    files = sys.argv[1:]
    verbose = False
    if files and files[0] == '-v':
        verbose = True
        files = files[1:]
    allf = []
    for f in files:
        if os.path.isdir(f):
            allf += sorted(glob.glob(f + '/*.prql'))
        else:
            allf.append(f)
    db = mkdb()
    stats = {}
    for i in range(0, len(allf), 200):
        chunk = allf[i:i + 200]
        p = subprocess.run([RQ] + chunk, capture_output=True, text=True)
        lines = [l for l in p.stdout.splitlines() if l.startswith('{')]
        for l in lines:
            d = json.loads(l)
            src = open(d['name']).read()
            status, out = check_one(d, src, db)
            stats[status] = stats.get(status, 0) + 1
            if out and (status == 'ok' or verbose or status == 'panic'):
                print('=' * 10, d['name'], status)
                print(src.rstrip())
                if verbose and d.get('sql'):
                    print('--- sql'); print(d['sql'])
                for o in out:
                    print('  !!', o)
            elif status == 'panic':
                print('=' * 10, d['name'], 'PANIC'); print(src.rstrip())
        if len(lines) != len(chunk):
            print('!!! rq_check produced', len(lines), 'lines for', len(chunk), 'files', p.stderr[-500:])
    print(stats, file=sys.stderr)


main()
