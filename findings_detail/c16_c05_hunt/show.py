import sys,json,subprocess,sqlite3
sys.argv=[sys.argv[0]]+sorted(sys.argv[1:])
exec(open('/tmp/huntA/run.py').read().split('def expand_rq_columns')[0])
db=mkdb()
p=subprocess.run([RQ]+sys.argv[1:],capture_output=True,text=True)
for l in p.stdout.splitlines():
    d=json.loads(l)
    print('=====',d['name'],d['status']); print(open(d['name']).read().rstrip())
    if d['status']!='ok': print('  ',d.get('error','')[:400]); continue
    fr=d['frame']
    def fc(c):
        if 'Single' in c: return '.'.join(c['Single']['name']) if c['Single']['name'] else None
        return ('ALL', c['All']['input_id'], c['All']['except'])
    print('  frame :', [fc(c) for c in fr['columns']] if fr else None)
    print('  rqcols:', d['columns'])
    for v in d['violations']: print('  C16', v)
    if d['sql'] is None: print('  SQLERR', d['sql_error'][:300]); continue
    print('  sql   :', ' '.join(d['sql'].split()))
    try:
        cur=db.execute(d['sql']); print('  result:', [c[0] for c in cur.description])
    except Exception as e: print('  SQLITE-ERROR', e)
