use prqlc::{Options, Target};
use std::sync::atomic::{AtomicBool, Ordering};
use std::sync::Arc;

fn opts() -> Options {
    Options::default()
        .no_signature()
        .with_target(Target::Sql(Some("sqlite".parse().unwrap())))
}

fn logged(src: &str) -> String {
    prqlc::debug::log_start();
    let _ = prqlc::compile(src, &opts());
    let log = prqlc::debug::log_finish().unwrap();
    // drop the timestamp line
    let j = serde_json::to_string(&log).unwrap();
    let i = j.find("\"entries\"").unwrap();
    j[i..].to_string()
}

fn main() {
    let a = "from aaa | take 5 | filter x > 1";
    let base = logged(a);
    let again = logged(a);
    println!("sequential same: {}", base == again);
    std::fs::write("/tmp/huntB/log1.json", &base).unwrap();
    std::fs::write("/tmp/huntB/log2.json", &again).unwrap();
    if std::env::args().count() > 1 { return; }

    let stop = Arc::new(AtomicBool::new(false));
    let s2 = stop.clone();
    let h = std::thread::spawn(move || {
        let mut n = 0;
        while !s2.load(Ordering::Relaxed) {
            let _ = prqlc::compile("from bbb | sort (q + 1) | take 3 | filter zzz > 2", &opts());
            n += 1;
        }
        n
    });
    let mut diff = 0;
    let mut leaked = 0;
    for _ in 0..20 {
        let l = logged(a);
        if l != base {
            diff += 1;
        }
        if l.contains("bbb") {
            leaked += 1;
        }
    }
    stop.store(true, Ordering::Relaxed);
    let n = h.join().unwrap();
    println!("concurrent: {diff}/20 logs differ from the sequential log; {leaked}/20 contain the other thread's table name `bbb` (other thread ran {n} compilations)");
}
