use std::collections::BTreeMap;
use std::path::PathBuf;

use prqlc::{Options, SourceTree, Target};

fn opts(t: &str) -> Options {
    Options::default()
        .no_signature()
        .with_color(false)
        .with_target(Target::Sql(Some(t.parse().unwrap())))
}

fn c(src: &str, t: &str) -> String {
    match prqlc::compile(src, &opts(t)) {
        Ok(s) => format!("OK:{s}"),
        Err(e) => format!("ERR:{e}"),
    }
}

fn rq(src: &str) -> String {
    match prqlc::prql_to_pl(src).and_then(prqlc::pl_to_rq) {
        Ok(rq) => prqlc::json::from_rq(&rq).unwrap(),
        Err(e) => format!("ERR:{e}"),
    }
}

fn tree(files: &[(&str, &str)]) -> String {
    let st = SourceTree::new(
        files
            .iter()
            .map(|(p, s)| (PathBuf::from(p), s.to_string())),
        None,
    );
    let pl = match prqlc::prql_to_pl_tree(&st) {
        Ok(x) => x,
        Err(e) => return format!("ERR-parse:{}", e.composed(&st)),
    };
    let rq = match prqlc::pl_to_rq_tree(pl, &[], &[]) {
        Ok(x) => x,
        Err(e) => return format!("ERR-resolve:{}", e.composed(&st)),
    };
    let j = prqlc::json::from_rq(&rq).unwrap();
    let sql = match prqlc::rq_to_sql(rq, &opts("sqlite")) {
        Ok(x) => x,
        Err(e) => return format!("ERR-sql:{}", e.composed(&st)),
    };
    format!("SQL:{sql}\nRQ:{j}")
}

fn main() {
    let dir = std::env::args().nth(1).unwrap();
    let mut progs: BTreeMap<String, String> = BTreeMap::new();
    for e in std::fs::read_dir(&dir).unwrap() {
        let p = e.unwrap().path();
        if p.extension().map(|x| x == "prql").unwrap_or(false) {
            progs.insert(
                p.file_name().unwrap().to_string_lossy().to_string(),
                std::fs::read_to_string(&p).unwrap(),
            );
        }
    }
    let bad = "from a | select {x = nope 1} | filter";
    let dialects = ["sqlite", "mssql", "postgres"];

    // 1. baseline in fresh state (first call of each)
    let mut base: BTreeMap<(String, String), String> = BTreeMap::new();
    for (n, s) in &progs {
        for d in dialects {
            base.insert((n.clone(), d.to_string()), c(s, d));
        }
        base.insert((n.clone(), "rq".into()), rq(s));
    }
    // 2. repeated, reversed order, after failing compile
    let mut diffs = 0;
    for round in 0..3 {
        let names: Vec<_> = if round % 2 == 0 {
            progs.keys().rev().cloned().collect()
        } else {
            progs.keys().cloned().collect()
        };
        for n in names {
            let _ = c(bad, "sqlite");
            for d in dialects.iter().rev() {
                let r = c(&progs[&n], d);
                if r != base[&(n.clone(), d.to_string())] {
                    diffs += 1;
                    println!("DIFF seq {n} {d}\n--- base\n{}\n--- now\n{r}", base[&(n.clone(), d.to_string())]);
                }
            }
            let r = rq(&progs[&n]);
            if r != base[&(n.clone(), "rq".to_string())] {
                diffs += 1;
                println!("DIFF seq rq {n}");
            }
        }
    }
    // 3. threads
    let progs = std::sync::Arc::new(progs);
    let base = std::sync::Arc::new(base);
    let mut hs = vec![];
    for t in 0..8 {
        let progs = progs.clone();
        let base = base.clone();
        hs.push(std::thread::spawn(move || {
            let mut diffs = 0;
            let names: Vec<_> = progs.keys().cloned().collect();
            for i in 0..names.len() {
                let n = &names[(i * 7 + t * 3) % names.len()];
                for d in ["sqlite", "mssql", "postgres"] {
                    if t % 2 == 0 {
                        let _ = c("from a | select {x = nope 1} | filter", d);
                    }
                    let r = c(&progs[n], d);
                    if r != base[&(n.clone(), d.to_string())] {
                        diffs += 1;
                        println!("DIFF thread {t} {n} {d}\n--- base\n{}\n--- now\n{r}", base[&(n.clone(), d.to_string())]);
                    }
                }
                let r = rq(&progs[n]);
                if r != base[&(n.clone(), "rq".to_string())] {
                    diffs += 1;
                    println!("DIFF thread rq {t} {n}");
                }
            }
            diffs
        }));
    }
    for h in hs {
        diffs += h.join().unwrap();
    }
    println!("single-file diffs: {diffs}");

    // 4. multi-file enumeration order
    let files = [
        ("Project.prql", "from ta = alpha.tbl\njoin tb = beta.tbl (ta.id == tb.id)\njoin tc = sub.gamma.tbl (ta.id == tc.id)\nselect {ta.x, tb.y, z = sub.gamma.f tc.z}\n"),
        ("alpha.prql", "let tbl = (from a | select {id, x})\n"),
        ("beta.prql", "let tbl = (from b | select {id, y})\n"),
        ("sub/gamma.prql", "let tbl = (from c | select {id, z})\nlet f = func v -> v + 1\n"),
        ("sub/delta.prql", "let tbl = (from d | select {id, w})\n"),
    ];
    let a = tree(&files);
    let mut rev = files.to_vec();
    rev.reverse();
    let b = tree(&rev);
    let mut rot = files.to_vec();
    rot.rotate_left(2);
    let c2 = tree(&rot);
    println!("tree same (rev): {}", a == b);
    println!("tree same (rot): {}", a == c2);
    if a != b {
        for (x, y) in a.lines().zip(b.lines()) {
            if x != y {
                let xs: Vec<char> = x.chars().collect();
                let ys: Vec<char> = y.chars().collect();
                let i = xs.iter().zip(ys.iter()).position(|(p, q)| p != q).unwrap_or(0);
                let lo = i.saturating_sub(60);
                println!("first diff:\n  {}\n  {}", xs[lo..(i + 40).min(xs.len())].iter().collect::<String>(), ys[lo..(i + 40).min(ys.len())].iter().collect::<String>());
                break;
            }
        }
    }
    // errors in two files
    let files_bad = [
        ("Project.prql", "from alpha.tbl\njoin beta.tbl (==id)\n"),
        ("alpha.prql", "let tbl = (from a | select {id, x = })\n"),
        ("beta.prql", "let tbl = (from b | select {id, y = })\n"),
    ];
    let a = tree(&files_bad);
    let mut rev = files_bad.to_vec();
    rev.reverse();
    let b = tree(&rev);
    println!("tree-bad same: {}", a == b);
    if a != b {
        println!("{a}\n-----\n{b}");
    }
}
