#!/usr/bin/env python3
"""Metamorphic / differential hunt for C02 (precedence, associativity, null handling, folding)."""
import math, os, random, sqlite3, subprocess, sys, json

PRQLC = '/tmp/wt-hunt02-target/debug/prqlc'
ENV = dict(os.environ, RUST_BACKTRACE='0', NO_COLOR='1')

# ---------------------------------------------------------------- database
def make_db():
    db = sqlite3.connect(':memory:')
    db.create_function('regexp', 2, lambda p, s: None if p is None or s is None else int(__import__('re').search(str(p), str(s)) is not None))
    db.execute('create table t (id integer primary key, g integer, a integer, b integer, c integer, r real, s real, p integer, q integer, u text, v text)')
    rnd = random.Random(7)
    ints = [None, 0, 0, 1, 1, -1, 2, -2, 3, -3, 5, -7, 10, 2, 3]
    reals = [None, 0.0, 1.0, -1.0, 0.5, -0.5, 2.5, -2.5, 1e-3, 3.0, -3.0, 0.1, 7.25]
    bools = [None, 0, 1, 0, 1]
    texts = [None, '', 'a', 'A', 'b', "it's", 'a%', '10', '-1', 'abc']
    rows = []
    i = 0
    for _ in range(60):
        i += 1
        rows.append((i, rnd.choice([1, 2, 3, None]), rnd.choice(ints), rnd.choice(ints), rnd.choice(ints),
                     rnd.choice(reals), rnd.choice(reals), rnd.choice(bools), rnd.choice(bools),
                     rnd.choice(texts), rnd.choice(texts)))
    db.executemany('insert into t values (?,?,?,?,?,?,?,?,?,?,?)', rows)
    return db, rows

COLS = ['id', 'g', 'a', 'b', 'c', 'r', 's', 'p', 'q', 'u', 'v']

# ---------------------------------------------------------------- trees
# ('lit', kind, value)  kind in int/float/str/bool/null
# ('col', name)
# ('bin', op, l, r)
# ('un', op, e)
# ('in', e, lo, hi)     lo/hi may be None
# ('case', [(cond, val), ...])
# ('fn', name, [args])
PREC = {'||': 0, '&&': 1, '??': 2,
        '==': 3, '!=': 3, '<': 3, '>': 3, '<=': 3, '>=': 3, '~=': 3,
        '+': 4, '-': 4, '*': 5, '/': 5, '//': 5, '%': 5, '**': 6}
UNARY_PREC = 7
RIGHT = {'**'}

def lit_str(kind, v):
    if kind == 'null':
        return 'null'
    if kind == 'bool':
        return 'true' if v else 'false'
    if kind == 'int':
        return str(v)
    if kind == 'float':
        return v if isinstance(v, str) else repr(v)
    if kind == 'str':
        if '"' not in v:
            return '"' + v + '"'
        return "'" + v + "'"
    raise ValueError(kind)

def is_neg_lit(t):
    return t[0] == 'lit' and t[1] in ('int', 'float') and lit_str(t[1], t[2]).startswith('-')

def prec_of(t):
    k = t[0]
    if k == 'bin':
        return PREC[t[1]]
    if k == 'un':
        return UNARY_PREC
    if k == 'lit':
        return UNARY_PREC if is_neg_lit(t) else 9
    if k in ('col', 'case'):
        return 9
    if k in ('fn', 'in'):
        return -1
    raise ValueError(k)

def starts_with_sign(t):
    k = t[0]
    if k == 'un':
        return t[1] in '+-' or True  # `!` too: `f !a`? keep safe
    if k == 'lit':
        return is_neg_lit(t)
    if k == 'bin':
        # leftmost leaf, unless it gets parenthesised
        l = t[2]
        if need_paren_left(t, l):
            return False
        return starts_with_sign(l)
    return False

def need_paren_left(parent, child):
    p, c = PREC[parent[1]], prec_of(child)
    return c < p or (c == p and parent[1] in RIGHT)

def need_paren_right(parent, child):
    p, c = PREC[parent[1]], prec_of(child)
    return c < p or (c == p and parent[1] not in RIGHT)

def fmt_a(t, top=True):
    """minimal parentheses"""
    k = t[0]
    if k == 'lit':
        return lit_str(t[1], t[2])
    if k == 'col':
        return t[1]
    if k == 'bin':
        l, r = fmt_a(t[2], False), fmt_a(t[3], False)
        if need_paren_left(t, t[2]):
            l = '(' + l + ')'
        if need_paren_right(t, t[3]):
            r = '(' + r + ')'
        return f'{l} {t[1]} {r}'
    if k == 'un':
        e = fmt_a(t[2], False)
        if prec_of(t[2]) < 9:
            e = '(' + e + ')'
        return t[1] + e
    if k == 'case':
        return 'case [' + ', '.join(fmt_a(c, True) + ' => ' + fmt_a(v, True) for c, v in t[1]) + ']'
    if k == 'fn':
        s = t[1] + ''.join(' ' + fmt_arg_a(x) for x in t[2])
        return s if top else s  # caller parenthesises (prec -1)
    if k == 'in':
        lo = '' if t[2] is None else fmt_bound_a(t[2])
        hi = '' if t[3] is None else fmt_bound_a(t[3])
        if lo.startswith(('-', '+', '!')) or (lo == '' and hi.startswith(('-', '+', '!'))):
            if lo:
                lo = '(' + lo + ')'
            else:
                hi = '(' + hi + ')'
        return f'in {lo}..{hi} {fmt_arg_a(t[1])}'
    raise ValueError(k)

def fmt_bound_a(t):
    s = fmt_a(t, False)
    return s if prec_of(t) >= UNARY_PREC else '(' + s + ')'

def fmt_arg_a(t):
    s = fmt_a(t, False)
    if prec_of(t) < 0 or starts_with_sign(t):
        return '(' + s + ')'
    return s

# wrap results of fmt_a for fn/in when nested inside operators
_orig_fmt_a = fmt_a
def fmt_a(t, top=True):  # noqa: F811
    s = _orig_fmt_a(t, top)
    if not top and t[0] in ('fn', 'in'):
        # parent decides; bin/un parents compare prec -1 and add parens themselves
        pass
    return s

def fmt_b(t):
    """fully parenthesised"""
    k = t[0]
    if k == 'lit':
        s = lit_str(t[1], t[2])
        return '(' + s + ')'
    if k == 'col':
        return '(' + t[1] + ')'
    if k == 'bin':
        return f'({fmt_b(t[2])} {t[1]} {fmt_b(t[3])})'
    if k == 'un':
        return f'({t[1]}{fmt_b(t[2])})'
    if k == 'case':
        return '(case [' + ', '.join(fmt_b(c) + ' => ' + fmt_b(v) for c, v in t[1]) + '])'
    if k == 'fn':
        return '(' + t[1] + ''.join(' ' + fmt_b(x) for x in t[2]) + ')'
    if k == 'in':
        lo = '' if t[2] is None else fmt_b(t[2])
        hi = '' if t[3] is None else fmt_b(t[3])
        return f'(in {lo}..{hi} {fmt_b(t[1])})'
    raise ValueError(k)

# ---------------------------------------------------------------- python evaluation (SQL semantics)
class Unknown(Exception):
    pass

def tv(x):
    """SQL truth value of x: True / False / None"""
    if x is None:
        return None
    if isinstance(x, str):
        raise Unknown('text as bool')
    return x != 0

def b2i(x):
    return None if x is None else int(x)

def ev(t, row):
    k = t[0]
    if k == 'lit':
        if t[1] == 'null':
            return None
        if t[1] == 'bool':
            return int(t[2])
        if t[1] == 'float':
            return float(t[2])
        return t[2]
    if k == 'col':
        return row[COLS.index(t[1])]
    if k == 'un':
        x = ev(t[2], row)
        if t[1] == '+':
            return x
        if t[1] == '-':
            if isinstance(x, str):
                raise Unknown('neg text')
            return None if x is None else -x
        if t[1] == '!':
            return b2i(None if tv(x) is None else not tv(x))
    if k == 'bin':
        op = t[1]
        if op in ('==', '!='):
            lnull = t[2] == ('lit', 'null', None)
            rnull = t[3] == ('lit', 'null', None)
            if lnull or rnull:
                x = ev(t[3] if lnull else t[2], row)
                return int((x is None) == (op == '=='))
        if op == '&&':
            x, y = tv(ev(t[2], row)), tv(ev(t[3], row))
            if x is False or y is False:
                return 0
            if x is None or y is None:
                return None
            return 1
        if op == '||':
            x, y = tv(ev(t[2], row)), tv(ev(t[3], row))
            if x is True or y is True:
                return 1
            if x is None or y is None:
                return None
            return 0
        x, y = ev(t[2], row), ev(t[3], row)
        if op == '??':
            return y if x is None else x
        if x is None or y is None:
            return None
        if isinstance(x, str) != isinstance(y, str):
            raise Unknown('mixed text/num')
        if op in ('==', '!=', '<', '>', '<=', '>='):
            return int({'==': x == y, '!=': x != y, '<': x < y, '>': x > y, '<=': x <= y, '>=': x >= y}[op])
        if isinstance(x, str):
            raise Unknown('text arith')
        if op == '+':
            return x + y
        if op == '-':
            return x - y
        if op == '*':
            return x * y
        if op == '/':
            if y == 0:
                return None
            return x / y
        if op == '//':
            if os.environ.get('NO_DIVI', '1') == '1':
                raise Unknown('div_i known bad')
            if y == 0:
                return None
            if isinstance(x, float) or isinstance(y, float):
                return float(math.trunc(x / y))
            q = abs(x) // abs(y)
            return float(q if (x >= 0) == (y >= 0) else -q)
        if op == '%':
            if isinstance(x, float) or isinstance(y, float):
                raise Unknown('real mod')
            if y == 0:
                return None
            m = abs(x) % abs(y)
            return m if x >= 0 else -m
        if op == '**':
            try:
                return float(x) ** float(y)
            except Exception:
                raise Unknown('pow')
        raise Unknown(op)
    if k == 'in':
        x = ev(t[1], row)
        parts = []
        if t[2] is not None:
            parts.append(('bin', '>=', ('lit', 'x', x), t[2]))
        if t[3] is not None:
            parts.append(('bin', '<=', ('lit', 'x', x), t[3]))
        if not parts:
            return 1
        e = parts[0]
        for p in parts[1:]:
            e = ('bin', '&&', e, p)
        return ev(e, row)
    if k == 'case':
        for c, v in t[1]:
            if tv(ev(c, row)) is True:
                return ev(v, row)
        return None
    if k == 'fn':
        args = [ev(x, row) for x in t[2]]
        if t[1] == 'math.abs':
            return None if args[0] is None else abs(args[0])
        raise Unknown(t[1])
    raise Unknown(k)

def has_col(t):
    k = t[0]
    if k == 'col':
        return True
    if k == 'lit':
        return False
    if k == 'bin':
        return has_col(t[2]) or has_col(t[3])
    if k == 'un':
        return has_col(t[2])
    if k == 'in':
        return any(x is not None and has_col(x) for x in t[1:4])
    if k == 'case':
        return any(has_col(c) or has_col(v) for c, v in t[1])
    if k == 'fn':
        return any(has_col(x) for x in t[2])

def value_to_lit(v, boolish):
    if v is None:
        return ('lit', 'null', None)
    if isinstance(v, bool):
        return ('lit', 'bool', v)
    if isinstance(v, int):
        if boolish and v in (0, 1):
            return ('lit', 'bool', bool(v))
        if abs(v) >= 2 ** 62:
            raise Unknown('big')
        return ('lit', 'int', v)
    if isinstance(v, float):
        if math.isnan(v) or math.isinf(v) or 'e' in repr(v):
            raise Unknown('float repr')
        return ('lit', 'float', v)
    if isinstance(v, str):
        if '"' in v and "'" in v:
            raise Unknown('quotes')
        return ('lit', 'str', v)
    raise Unknown('type')

BOOL_OPS = {'==', '!=', '<', '>', '<=', '>=', '&&', '||'}
CMP = {'==', '!=', '<', '>', '<=', '>=', '~='}
def known(t):
    """patterns already recorded as findings; excluded with KNOWN=1 so that other classes surface"""
    k = t[0]
    if k in ('lit', 'col'):
        return False
    if k == 'bin':
        if t[1] in CMP:
            for ch in (t[2], t[3]):
                if (ch[0] == 'bin' and ch[1] in CMP) or ch[0] == 'in':
                    return True
                if t[1] in ('==', '!=') and ch[0] != 'lit' and not has_col(ch):
                    return True
        return known(t[2]) or known(t[3])
    if k == 'un':
        return known(t[2])
    if k == 'in':
        for b in (t[2], t[3]):
            if b is not None and not has_col(b):
                try:
                    if ev(b, None) is None:
                        return True
                except Exception:
                    return True
        return any(x is not None and known(x) for x in t[1:4])
    if k == 'case':
        return any(known(c) or known(v) for c, v in t[1])
    if k == 'fn':
        return any(known(x) for x in t[2])

def is_boolish(t):
    if t[0] == 'case':
        return all(is_boolish(v) for _, v in t[1])
    if t[0] == 'bin' and t[1] == '??':
        return is_boolish(t[2]) and is_boolish(t[3])
    return (t[0] == 'bin' and t[1] in BOOL_OPS) or (t[0] == 'un' and t[1] == '!') or t[0] == 'in' or (t[0] == 'lit' and t[1] == 'bool')

def fold(t):
    """replace maximal constant sub-trees by their value (form C). Returns (tree, changed)"""
    k = t[0]
    if k in ('lit', 'col'):
        return t, False
    if not has_col(t):
        try:
            v = ev(t, None)
            # keep the `== null` structure meaningful: do not fold to a bare null under ==
            return value_to_lit(v, is_boolish(t)), True
        except (Unknown, OverflowError, ZeroDivisionError, TypeError):
            pass
    if k == 'bin':
        l, cl = fold(t[2])
        r, cr = fold(t[3])
        if t[1] in ('==', '!='):
            # folding an operand to the literal null would change `=` into IS NULL: that is the
            # documented meaning of `== null` only for a literal null
            if (cl and l[1] == 'null') :
                l, cl = t[2], False
            if (cr and r[1] == 'null'):
                r, cr = t[3], False
        return ('bin', t[1], l, r), cl or cr
    if k == 'un':
        e, c = fold(t[2])
        return ('un', t[1], e), c
    if k == 'in':
        parts = [fold(x) if x is not None else (None, False) for x in t[1:4]]
        return ('in', parts[0][0], parts[1][0], parts[2][0]), any(p[1] for p in parts)
    if k == 'case':
        ch = False
        items = []
        for c, v in t[1]:
            c2, a = fold(c)
            v2, b = fold(v)
            ch = ch or a or b
            items.append((c2, v2))
        return ('case', items), ch
    if k == 'fn':
        parts = [fold(x) for x in t[2]]
        return ('fn', t[1], [p[0] for p in parts]), any(p[1] for p in parts)

# ---------------------------------------------------------------- generator
class Gen:
    def __init__(self, rnd, agg=False):
        self.r = rnd
        self.agg = agg

    def int_lit(self):
        r = self.r
        return ('lit', 'int', r.choice([0, 1, 2, 3, 5, 7, 10, -1, -2, -3, -5, 100, 2147483648, -2147483649, 4611686018427387904]))

    def float_lit(self):
        return ('lit', 'float', self.r.choice([0.5, 1.0, 2.5, -0.5, -1.0, -2.5, '1e-3', 0.001, 3.0, '2.5e0', 0.1, 100.25]))

    def num(self, d):
        r = self.r
        if d <= 0 or r.random() < 0.25:
            x = r.random()
            if x < 0.45:
                return ('col', r.choice(['a', 'b', 'c']))
            if x < 0.6:
                return ('col', r.choice(['r', 's']))
            if x < 0.9:
                return self.int_lit()
            if x < 0.97:
                return self.float_lit()
            return ('lit', 'null', None)
        x = r.random()
        if x < 0.55:
            op = r.choice(['+', '-', '*', '/', '//', '%', '**', '+', '-', '*', '-', '-', '/', '//', '%'])
            return ('bin', op, self.num(d - 1), self.num(d - 1))
        if x < 0.72:
            return ('un', r.choice(['-', '-', '-', '+']), self.num(d - 1))
        if x < 0.80:
            return ('bin', '??', self.num(d - 1), self.num(d - 1))
        if x < 0.86:
            n = r.choice([1, 2, 2, 3])
            items = [(self.boolean(d - 1), self.num(d - 1)) for _ in range(n)]
            if r.random() < 0.6:
                items[-1] = (('lit', 'bool', True), items[-1][1])
            return ('case', items)
        if x < 0.95:
            f = r.choice(['math.abs', 'math.abs', 'math.round', 'math.pow', 'math.floor', 'math.ceil'])
            if f == 'math.round':
                return ('fn', f, [('lit', 'int', r.choice([0, 1, 2])), self.num(d - 1)])
            if f == 'math.pow':
                return ('fn', f, [self.num(d - 1), self.num(d - 1)])
            return ('fn', f, [self.num(d - 1)])
        if x < 0.98:
            return ('fn', 'text.length', [self.text(d - 1)])
        return self.boolean(d - 1)  # boolean used as a number

    def boolean(self, d):
        r = self.r
        if d <= 0 or r.random() < 0.15:
            x = r.random()
            if x < 0.6:
                return ('col', r.choice(['p', 'q']))
            if x < 0.8:
                return ('lit', 'bool', r.random() < 0.5)
            if x < 0.9:
                return ('lit', 'null', None)
            return ('col', r.choice(['a', 'b']))
        x = r.random()
        if x < 0.30:
            op = r.choice(['==', '!=', '<', '>', '<=', '>='])
            return ('bin', op, self.num(d - 1), self.num(d - 1))
        if x < 0.42:
            op = r.choice(['==', '!=', '<', '>', '<=', '>=', '==', '!='])
            return ('bin', op, self.boolean(d - 1), self.boolean(d - 1))
        if x < 0.62:
            return ('bin', r.choice(['&&', '||']), self.boolean(d - 1), self.boolean(d - 1))
        if x < 0.72:
            return ('un', '!', self.boolean(d - 1))
        if x < 0.80:
            e = r.choice([self.num, self.boolean, self.text])(d - 1)
            nul = ('lit', 'null', None)
            op = r.choice(['==', '!='])
            return ('bin', op, e, nul) if r.random() < 0.7 else ('bin', op, nul, e)
        if x < 0.88:
            lo = self.num(min(d - 1, 1)) if r.random() < 0.8 else None
            hi = self.num(min(d - 1, 1)) if (r.random() < 0.8 or lo is None) else None
            return ('in', self.num(d - 1), lo, hi)
        if x < 0.92:
            return ('bin', '??', self.boolean(d - 1), self.boolean(d - 1))
        if x < 0.96:
            op = r.choice(['==', '!=', '<', '>=', '~='])
            return ('bin', op, self.text(d - 1), self.text(d - 1))
        n = r.choice([1, 2])
        items = [(self.boolean(d - 1), self.boolean(d - 1)) for _ in range(n)]
        if r.random() < 0.6:
            items[-1] = (('lit', 'bool', True), items[-1][1])
        return ('case', items)

    def text(self, d):
        r = self.r
        if d <= 0 or r.random() < 0.5:
            x = r.random()
            if x < 0.6:
                return ('col', r.choice(['u', 'v']))
            return ('lit', 'str', r.choice(['a', 'A', '', "it's", 'say "hi"', 'a%', '10', '-- x', 'b']))
        x = r.random()
        if x < 0.4:
            return ('bin', '??', self.text(d - 1), self.text(d - 1))
        if x < 0.7:
            return ('fn', r.choice(['text.upper', 'text.lower', 'text.trim']), [self.text(d - 1)])
        items = [(self.boolean(d - 1), self.text(d - 1)), (('lit', 'bool', True), self.text(d - 1))]
        return ('case', items)

    def any(self, d):
        x = self.r.random()
        if x < 0.55:
            return self.num(d)
        if x < 0.95:
            return self.boolean(d)
        return self.text(d)

# ---------------------------------------------------------------- compile and run
def compile_prql(prql, target='sql.sqlite'):
    p = subprocess.run([PRQLC, 'compile', '--hide-signature-comment', '--target', target],
                       input=prql, capture_output=True, text=True, env=ENV)
    if p.returncode != 0:
        return None, (p.stderr or p.stdout)
    return p.stdout, None

def run_sql(db, sql):
    try:
        cur = db.execute(sql)
        return cur.fetchall(), None
    except Exception as e:  # noqa
        return None, f'{type(e).__name__}: {e}'

def same(x, y, tol=False):
    if x is None or y is None:
        return x is None and y is None
    if isinstance(x, str) or isinstance(y, str):
        return x == y and type(x) == type(y)
    if tol:
        if isinstance(x, float) or isinstance(y, float):
            if math.isinf(x) or math.isinf(y):
                return x == y
            return abs(x - y) <= 1e-9 * max(1.0, abs(x), abs(y))
        return x == y
    if x != y:
        return False
    return True

def query_for(exprs):
    return 'from t\nselect {\n' + ''.join(f'  x{i} = {e},\n' for i, e in enumerate(exprs)) + '}\n'

def run_forms(db, exprs):
    """compile+run a batch; return list of per-expression (sql_fragment_or_None, column or None, err)"""
    sql, err = compile_prql(query_for(exprs))
    if sql is not None:
        rows, rerr = run_sql(db, sql)
        if rows is not None:
            cols = list(zip(*rows)) if rows else [[] for _ in exprs]
            return [(sql, list(cols[i]), None) for i in range(len(exprs))]
    if len(exprs) == 1:
        if sql is None:
            return [(None, None, 'COMPILE: ' + err.strip())]
        return [(sql, None, 'SQLITE: ' + rerr)]
    out = []
    for e in exprs:
        out.extend(run_forms(db, [e]))
    return out

def main():
    seed = int(sys.argv[1]) if len(sys.argv) > 1 else 1
    n = int(sys.argv[2]) if len(sys.argv) > 2 else 2000
    depth = int(sys.argv[3]) if len(sys.argv) > 3 else 3
    rnd = random.Random(seed)
    db, rows = make_db()
    g = Gen(rnd)
    BATCH = 16
    findings = []
    stats = dict(total=0, ab=0, ac=0, ad=0, err=0, both_err=0)
    trees = []
    while len(trees) < n:
        t = g.any(rnd.choice([1, 2, 2, 3, depth]))
        if os.environ.get('KNOWN') == '1' and known(t):
            continue
        trees.append(t)
    for off in range(0, n, BATCH):
        chunk = trees[off:off + BATCH]
        A = [fmt_a(t) for t in chunk]
        B = [fmt_b(t) for t in chunk]
        folded = [fold(t) for t in chunk]
        C = [fmt_a(f[0]) for f in folded]
        ra = run_forms(db, A)
        rb = run_forms(db, B)
        rc = run_forms(db, C)
        for i, t in enumerate(chunk):
            stats['total'] += 1
            a, b, c = ra[i], rb[i], rc[i]
            rec = dict(tree=repr(t), A=A[i], B=B[i], C=C[i])
            if a[2] or b[2]:
                if a[2] and b[2]:
                    stats['both_err'] += 1
                    kind = 'both-error'
                else:
                    kind = 'one-error'
                stats['err'] += 1
                rec.update(kind=kind, errA=a[2], errB=b[2])
                findings.append(rec)
                continue
            if not all(same(x, y) for x, y in zip(a[1], b[1])):
                stats['ab'] += 1
                bad = [(rows[j], a[1][j], b[1][j]) for j in range(len(rows)) if not same(a[1][j], b[1][j])][:3]
                rec.update(kind='A!=B', diff=repr(bad))
                findings.append(rec)
                continue
            if folded[i][1]:
                if c[2]:
                    rec.update(kind='C-error', errC=c[2])
                    findings.append(rec)
                    stats['ac'] += 1
                elif not all(same(x, y, True) for x, y in zip(a[1], c[1])):
                    stats['ac'] += 1
                    bad = [(rows[j], a[1][j], c[1][j]) for j in range(len(rows)) if not same(a[1][j], c[1][j], True)][:3]
                    rec.update(kind='A!=C', diff=repr(bad))
                    findings.append(rec)
                    continue
            # D: direct evaluation
            try:
                bad = []
                for j, row in enumerate(rows):
                    d = ev(t, row)
                    if isinstance(d, complex):
                        raise Unknown('complex')
                    if not same(a[1][j], d, True):
                        bad.append((row, a[1][j], d))
                if bad:
                    stats['ad'] += 1
                    rec.update(kind='A!=D', diff=repr(bad[:3]))
                    findings.append(rec)
            except (Unknown, OverflowError, ZeroDivisionError, TypeError, ValueError):
                pass
    print(json.dumps(stats))
    with open(f'/tmp/wt-hunt02-out/raw-{seed}.jsonl', 'w') as f:
        for r in findings:
            f.write(json.dumps(r) + '\n')

if __name__ == '__main__':
    main()
