#!/usr/bin/env python3
"""driver: run prql programs through prqlc and sqlite"""
import subprocess, sqlite3, sys, os, re
BIN='/tmp/wt-hunt10-target/debug/prqlc'
ENV=dict(os.environ, RUST_BACKTRACE='0', NO_COLOR='1')
def compile_(src, target='sql.sqlite'):
    p=subprocess.run([BIN,'compile','--target',target,'--hide-signature-comment','--color','never'],input=src,capture_output=True,text=True,env=ENV)
    return p.returncode,p.stdout,p.stderr
def db():
    c=sqlite3.connect(':memory:')
    cols='a,b,c,d,id,x,y,z,name,n,k,v,t_id,u_id,t,u'
    for t in ['t','u','w','t1','t2']:
        c.execute(f'create table {t}({cols})')
    c.execute('create table employees(id,emp_no,name,first_name,last_name,salary,dept,dept_id,manager_id,age,country,city,title,gender)')
    c.execute('create table departments(id,dept_id,name,dept_name,budget)')
    c.execute('create table _expr_0(a,b,_expr_0,_expr_1)')
    c.execute('create table table_0(a,b,table_0,id)')
    c.execute('create table table_1(a,b,table_1,id)')
    return c
DB=db()
def check(sql):
    try:
        DB.execute('EXPLAIN '+sql)
        return None
    except Exception as e:
        return str(e)
def run(src,target='sql.sqlite',quiet=False):
    rc,out,err=compile_(src,target)
    if rc!=0:
        m=re.search(r'──\s*(.*)',err)
        first=[l for l in err.splitlines() if '──' in l and '╰' in l]
        msg=first[0].split('──')[-1].strip() if first else err.strip().splitlines()[-1] if err.strip() else ''
        if 'panicked' in err: msg='PANIC '+err.strip().splitlines()[0] + ' '+msg
        return ('ERR',msg,None)
    e=check(out) if target=='sql.sqlite' else None
    return ('OK',out,e)
if __name__=='__main__':
    src=sys.stdin.read()
    progs=[p.strip() for p in src.split('\n---\n') if p.strip()]
    tgt=sys.argv[1] if len(sys.argv)>1 else 'sql.sqlite'
    for p in progs:
        st,out,e=run(p,tgt)
        print('=== ',p.replace('\n','\n     '))
        if st=='ERR': print('  REJECT:',out)
        else:
            print('  SQL:',' '.join(out.split()))
            if e: print('  **SQLITE ERROR**:',e)
