#!/usr/bin/env python3
import random, sys, collections
from drv import run
from concurrent.futures import ThreadPoolExecutor
R=random.Random(int(sys.argv[1]) if len(sys.argv)>1 else 0)
N=int(sys.argv[2]) if len(sys.argv)>2 else 300
VERB=len(sys.argv)>3
TABLES={'t':['a','b','c','id'],'u':['a','b','x','id'],'w':['a','y','z','id']}
def expr(cols,depth=0):
    c=R.choice(cols)
    k=R.random()
    if k<.4 or depth>1: return c
    if k<.6: return f'({c} + {R.choice(cols)})'
    if k<.7: return f'({c} * 2)'
    if k<.8: return f'({c} ?? 0)'
    if k<.9: return f'(case [{c} > 1 => {R.choice(cols)}, true => 0])'
    return f'(-{c})'
def sub(depth):
    t=R.choice(list(TABLES))
    cols=list(TABLES[t]); known=True
    if R.random()<.5:
        sel=R.sample(cols,R.randint(1,len(cols)))
        return f'from {t} | select {{{", ".join(sel)}}}', sel
    return f'from {t}', cols
def pipeline(depth=0):
    t=R.choice(list(TABLES))
    cols=list(TABLES[t]); steps=[f'from {t}']
    cnt=[0]
    def fresh():
        cnt[0]+=1; return f'n{cnt[0]}'
    for _ in range(R.randint(1,6 if depth==0 else 3)):
        k=R.choice(['select','derive','filter','sort','take','agg','gtake','window','join','append','remove','intersect','selectnot','gderive','loop','rename','distinct','take_range'])
        if k=='select':
            sel=R.sample(cols,R.randint(1,len(cols)))
            if R.random()<.3:
                n=fresh(); steps.append(f'select {{{", ".join(sel)}, {n} = {expr(cols)}}}'); cols=sel+[n]
            else:
                steps.append(f'select {{{", ".join(sel)}}}'); cols=sel
        elif k=='rename':
            c=R.choice(cols); o=R.choice(cols)
            steps.append(f'derive {{{c} = {expr(cols)}}}')
            # c shadows: stays in cols
        elif k=='derive':
            n=fresh(); steps.append(f'derive {{{n} = {expr(cols)}}}'); cols=cols+[n]
        elif k=='filter':
            steps.append(f'filter {expr(cols)} > {R.randint(0,3)}')
        elif k=='sort':
            ks=[('-' if R.random()<.3 else '')+expr(cols) for _ in range(R.randint(1,2))]
            steps.append(f'sort {{{", ".join(ks)}}}')
        elif k=='take': steps.append(f'take {R.randint(1,9)}')
        elif k=='take_range': steps.append(f'take {R.randint(2,4)}..{R.randint(5,9)}')
        elif k=='agg':
            g=R.sample(cols,R.randint(0,min(2,len(cols))))
            n=fresh(); f=R.choice(['sum','min','max','count','average','count_distinct'])
            a=f'{n} = {f} {expr(cols)}'
            if g: steps.append(f'group {{{", ".join(g)}}} (aggregate {{{a}}})'); cols=g+[n]
            else: steps.append(f'aggregate {{{a}}}'); cols=[n]
        elif k=='gtake':
            g=R.sample(cols,R.randint(1,min(2,len(cols))))
            s=f'sort {expr(cols)} | ' if R.random()<.5 else ''
            steps.append(f'group {{{", ".join(g)}}} ({s}take {R.randint(1,2)})')
        elif k=='distinct':
            steps.append(f'group {{{", ".join(cols)}}} (take 1)')
        elif k=='gderive':
            g=R.sample(cols,1); n=fresh()
            s=f'sort {R.choice(cols)} | ' if R.random()<.5 else ''
            f=R.choice(['sum','rank','lag 1','row_number','min'])
            arg='this' if f=='row_number' else R.choice(cols)
            steps.append(f'group {{{", ".join(g)}}} ({s}derive {{{n} = {f} {arg}}})'); cols=cols+[n]
        elif k=='window':
            n=fresh(); w=R.choice(['rolling:3','rows:-1..1','expanding:true','range:-2..0'])
            pre=f'sort {R.choice(cols)} | ' if R.random()<.5 else ''
            steps.append(f'{pre}window {w} (derive {{{n} = sum {R.choice(cols)}}})'); cols=cols+[n]
        elif k=='join' and depth<2:
            s,sc=pipeline(depth+1) if R.random()<.5 else sub(depth)
            al=fresh()
            side=R.choice(['','side:left ','side:right ','side:full '])
            common=[c for c in cols if c in sc]
            if common and R.random()<.5: cond=f'(=={R.choice(common)})'
            else: cond=f'(this.{R.choice(cols)} == that.{R.choice(sc)})'
            steps.append(f'join {side}{al}=({s}) {cond}')
            # select to disambiguate
            if R.random()<.7:
                left=R.sample(cols,R.randint(1,len(cols))); right=[c for c in R.sample(sc,R.randint(1,len(sc))) if c not in left]
                steps.append('select {'+', '.join(left+[f'{al}.{c}' for c in right])+'}'); cols=left+right
            else:
                dup=set(cols)&set(sc); cols=[c for c in cols if c not in dup]+[c for c in sc if c not in dup]
                if not cols: cols=['a']; steps.append('select {a = 1}')
        elif k in('append','remove','intersect') and depth<2:
            s,sc=pipeline(depth+1) if R.random()<.5 else sub(depth)
            if len(sc)>=len(cols) and R.random()<.8:
                s+= ' | select {'+', '.join(sc[:len(cols)])+'}'
            steps.append(f'{k} ({s})')
        elif k=='selectnot' and len(cols)>1:
            ex=R.sample(cols,R.randint(1,len(cols)-1))
            steps.append(f'select !{{{", ".join(ex)}}}'); cols=[c for c in cols if c not in ex]
        elif k=='loop' and depth==0 and R.random()<.3:
            steps.append(f'loop (filter {R.choice(cols)} < 5 | select {{{", ".join(c+" = "+c+" + 1" if i==0 else c for i,c in enumerate(cols))}}})')
    return ' | '.join(steps), cols
progs=[pipeline()[0] for _ in range(N)]
stats=collections.Counter()
from drv import compile_, check
def work(p):
    return p,compile_(p)
with ThreadPoolExecutor(8) as ex:
    for p,(rc,out,err) in ex.map(work,progs):
        st='OK' if rc==0 else 'ERR'
        e=check(out) if rc==0 else None
        if rc!=0:
            ls=[l for l in err.splitlines() if '──' in l and '╰' in l]
            out=(ls[0].split('──')[-1].strip() if ls else ' '.join(err.split())[:300])
            if 'panicked' in err: out='PANIC '+out
            if VERB: print('REJ:',p,'\n   ',out)
        if st=='ERR':
            stats['rej']+=1
            if 'PANIC' in out or 'internal' in out: print('ICE:',p,'\n   ',out[:200])
        elif e:
            stats['bad']+=1
            print('BAD:',p,'\n   SQL:',' '.join(out.split()),'\n   ERR:',e)
        else: stats['ok']+=1
print(stats,file=sys.stderr)
