#!/usr/bin/env python3
"""Developer tool (never run by a check): a systematic false-alarm sweep.

For every function that a rule anchors on (every `syn.fn("..")` in sa/rules), make a scratch copy of /repo in which ALL local
bindings of that one function (let / pattern / closure-parameter / loop variables) are renamed consistently to fresh names,
keep the copy only if it still compiles (`cargo check`), and require every check to stay silent on it.  Renaming bound variables to
fresh names preserves behaviour by construction; the compile step filters the cases the token-level renamer gets wrong.

usage: tools/alpha_sweep.py [-j N] [--only substring] [--keep-failing DIR]
"""
import glob
import json
import os
import re
import shutil
import subprocess
import sys
import tempfile
from concurrent.futures import ThreadPoolExecutor
import queue
import threading

VERIF = os.path.dirname(os.path.dirname(os.path.abspath(__file__)))
sys.path[:0] = [os.path.join(VERIF, "sa", "py"), os.path.join(VERIF, "sa", "rules")]
REPO = "/repo"
KEYWORDS = set("as break const continue crate else enum extern false fn for if impl in let loop match mod move mut pub ref return self Self static struct super trait true type unsafe use where while async await dyn".split())
ALLP = ["C01", "C02", "C03", "C04", "C05", "C06", "C07", "C08", "C09", "C10", "C11", "C12", "C13", "C14", "C15", "C16", "C17", "C18"]

TOK = re.compile(r"""
    (?P<lc>//[^\n]*) | (?P<bc>/\*.*?\*/) |
    (?P<raw>r\#*"(?:.|\n)*?"\#*) |
    (?P<str>b?"(?:\\.|[^"\\])*") |
    (?P<chr>b?'(?:\\.|[^'\\])'(?!\w)) |
    (?P<life>'[A-Za-z_]\w*) |
    (?P<id>[A-Za-z_]\w*) |
    (?P<num>\d[\w.]*) |
    (?P<dc>::) | (?P<arrow>=>|->) |
    (?P<ws>\s+) | (?P<p>.)
""", re.X | re.S)


def binders(body):
    from synq import walk
    out = set()

    def pat_names(p):
        for x in walk(p):
            if x.get("k") == "p_ident" and x.get("n") and not x["n"][0].isupper() and x["n"] not in KEYWORDS and x["n"] != "_":
                out.add(x["n"])
    for n in walk(body):
        k = n.get("k")
        if k == "local":
            pat_names(n["pat"])
        elif k == "closure":
            for p in n["params"]:
                pat_names(p)
        elif k == "for":
            pat_names(n["pat"])
        elif k == "let":
            pat_names(n["pat"])
        elif k == "match":
            for a in n["arms"]:
                pat_names(a["pat"])
    return out


def rename_region(src, names):
    """rename identifier tokens in `names` to zz_<name>, leaving field / method / path positions and field labels alone"""
    toks = [(m.lastgroup, m.group()) for m in TOK.finditer(src)]
    sig = [i for i, (g, t) in enumerate(toks) if g not in ("ws", "lc", "bc")]
    pos = {i: k for k, i in enumerate(sig)}
    # which `{` open a struct literal / struct pattern: preceded by an identifier or `>` that is not the end of a control-flow header
    brace_struct = {}
    stack = []
    header_depth = []         # stack of (depth at which a control header started) -> its `{` is a block
    depth = 0
    for k, i in enumerate(sig):
        g, t = toks[i]
        if g == "id" and t in ("if", "while", "match", "for", "loop", "else", "unsafe", "async", "move") and t not in ("move",):
            header_depth.append(depth)
        if t in "([":
            depth += 1
            stack.append((t, False))
        elif t in ")]":
            depth -= 1
            if stack:
                stack.pop()
        elif t == "{":
            prev = toks[sig[k - 1]] if k else ("p", "")
            is_struct = prev[0] == "id" and prev[1] not in KEYWORDS and prev[1][0].isupper()
            if header_depth and header_depth[-1] == depth:
                header_depth.pop()
                is_struct = False
            if prev[1] in ("=>", ")", "else", "loop", "unsafe", "move", "->", "=", "{", "}", ";") or prev[0] == "arrow":
                is_struct = False if prev[1] != "=" else is_struct
            brace_struct[i] = is_struct
            stack.append(("{", is_struct))
        elif t == "}":
            if stack:
                stack.pop()
    out = []
    stack = []
    in_closure_params = False
    for k, i in enumerate(sig):
        pass
    # second pass producing text
    res = []
    stack = []
    bar_open = False
    for idx, (g, t) in enumerate(toks):
        if g in ("ws", "lc", "bc"):
            res.append(t)
            continue
        k = pos[idx]
        prev = toks[sig[k - 1]] if k else ("p", "")
        nxt = toks[sig[k + 1]] if k + 1 < len(sig) else ("p", "")
        if t in "([":
            stack.append((t, False))
        elif t == "{":
            stack.append(("{", brace_struct.get(idx, False)))
        elif t in ")]}":
            if stack:
                stack.pop()
        if g == "str" and "{" in t:
            # inline format arguments `{name}` / `{name:?}` capture locals by name
            def sub(m):
                return "{zz_" + m.group(1) + m.group(2) + "}" if m.group(1) in names else m.group(0)
            t = re.sub(r"\{([A-Za-z_]\w*)((?::[^{}]*)?)\}", sub, t) if prev[1] in ("(", ",") else t
            res.append(t)
            continue
        if g == "id" and t in names:
            if prev[1] in (".", "::") or nxt[1] == "::" or (nxt[1] == "!" and toks[sig[k + 2]][1] in "([{" if k + 2 < len(sig) else False):
                res.append(t)
                continue
            in_struct = bool(stack) and stack[-1] == ("{", True)
            if in_struct and prev[1] in ("{", ",") and nxt[1] == ":":
                res.append(t)                      # field label
                continue
            if in_struct and prev[1] in ("{", ",") and nxt[1] in (",", "}"):
                res.append(f"{t}: zz_{t}")         # shorthand field
                continue
            if in_struct and prev[1] in ("ref", "mut") and nxt[1] in (",", "}"):
                res.append(t)                      # `Foo { ref x }` (rare): leave, compile will tell
                continue
            res.append("zz_" + t)
            continue
        res.append(t)
    return "".join(res)


ARM = re.compile(r"^(\s+)((?:[A-Za-z_][\w]*::)+[A-Za-z_]\w*(?:\([^()|]*\))?(?:\s*\|\s*(?:[A-Za-z_][\w]*::)+[A-Za-z_]\w*(?:\([^()|]*\))?)*)\s*=>\s*([^{}]*),\s*$")
STRARM = re.compile(r'^(\s+)("[^"]*"(?:\s*\|\s*"[^"]*")*)\s*=>\s*([^{}]*),\s*$')
LET = re.compile(r"^(\s+)let ([a-z_]\w*)(: [^=;]+)? = ([^;{}]+);\s*$")


def mutate_swaparms(repo, f):
    """swap adjacent single-line match arms whose patterns are enum paths without bindings (disjoint, unguarded): the order of such arms has no meaning"""
    p = os.path.join(repo, f["file"])
    lines = open(p, encoding="utf-8").read().split("\n")
    l0, l1 = f["l"] - 1, f["el"]
    n, i = 0, l0
    while i + 1 < l1:
        sa_, sb_ = STRARM.match(lines[i]), STRARM.match(lines[i + 1])
        if sa_ and sb_ and sa_.group(1) == sb_.group(1) and not (set(re.findall(r'"([^"]*)"', sa_.group(2))) & set(re.findall(r'"([^"]*)"', sb_.group(2)))):
            lines[i], lines[i + 1] = lines[i + 1], lines[i]
            n += 1
            i += 2
            continue
        a, b = ARM.match(lines[i]), ARM.match(lines[i + 1])
        if a and b and a.group(1) == b.group(1) and " if " not in lines[i] and " if " not in lines[i + 1]:
            va = set(re.findall(r"::([A-Za-z_]\w*)(?:\(|\s|$|\|)", a.group(2) + " "))
            vb = set(re.findall(r"::([A-Za-z_]\w*)(?:\(|\s|$|\|)", b.group(2) + " "))
            binds = re.search(r"\(\s*[a-z]", a.group(2) + b.group(2))
            if va and vb and not (va & vb) and not binds:
                lines[i], lines[i + 1] = lines[i + 1], lines[i]
                n += 1
                i += 2
                continue
        i += 1
    if n:
        open(p, "w", encoding="utf-8").write("\n".join(lines))
    return n


def mutate_letalias(repo, f):
    """`let x = e;` -> `let x_v = e; let x = x_v;` for single-line immutable lets: an intermediate binding"""
    p = os.path.join(repo, f["file"])
    lines = open(p, encoding="utf-8").read().split("\n")
    l0, l1 = f["l"] - 1, f["el"]
    out, n = [], 0
    for i, ln in enumerate(lines):
        m = LET.match(ln) if l0 < i < l1 else None
        if m and "?" not in m.group(4)[-1:] and not m.group(4).strip().startswith(("|", "move")) and n < 40:
            ind, name, ty, e = m.group(1), m.group(2), m.group(3) or "", m.group(4)
            out.append(f"{ind}let {name}_v{ty} = {e};")
            out.append(f"{ind}let {name} = {name}_v;")
            n += 1
        else:
            out.append(ln)
    if n:
        open(p, "w", encoding="utf-8").write("\n".join(out))
    return n


IFLINE = re.compile(r"^(\s*)((?:let (?:mut )?\w+(?:: [^=]+)? = |return |[\w\.]+ = |\} else )?)if (?!let )(.+) \{$")
IFLET = re.compile(r"^(\s*)((?:let (?:mut )?\w+(?:: [^=]+)? = |return |[\w\.]+ = )?)if let (.+?) = (.+) \{$")


def _if_blocks(lines, i, ind):
    """(index of `} else {`, index of the closing line) of the if that starts at line i with indentation `ind`, or None (no else / else if)"""
    j = i + 1
    while j < len(lines) and not (lines[j].startswith(ind + "}") and not lines[j].startswith(ind + " ")):
        j += 1
    if j >= len(lines) or lines[j].rstrip() != ind + "} else {":
        return None
    k = j + 1
    while k < len(lines) and not (lines[k].startswith(ind + "}") and not lines[k].startswith(ind + " ")):
        k += 1
    if k >= len(lines) or lines[k].startswith(ind + "} else"):
        return None
    return j, k


def mutate_ifnot(repo, f):
    """`if c { A } else { B }` -> `if !(c) { B } else { A }` (no `if let`, no else-if chain): the branches are swapped under the negated condition"""
    p = os.path.join(repo, f["file"])
    lines = open(p, encoding="utf-8").read().split("\n")
    l0, l1 = f["l"] - 1, f["el"]
    n, i = 0, l0
    while i < l1:
        m = IFLINE.match(lines[i])
        if m and not m.group(2).startswith("}") and "//" not in lines[i]:
            ind = m.group(1)
            jb = _if_blocks(lines, i, ind)
            if jb and jb[1] < l1:
                j, k = jb
                then_, else_ = lines[i + 1:j], lines[j + 1:k]
                c = m.group(3)
                neg = c[1:] if re.fullmatch(r"!([\w\.]+(\(\))?)+", c) else f"!({c})"
                lines[i:k] = [f"{ind}{m.group(2)}if {neg} {{"] + else_ + [ind + "} else {"] + then_
                n += 1
                i = k + 1
                continue
        i += 1
    if n:
        open(p, "w", encoding="utf-8").write("\n".join(lines))
    return n


def mutate_iflet(repo, f):
    """`if let P = e { A } else { B }` -> `match e { P => { A } _ => { B } }`"""
    p = os.path.join(repo, f["file"])
    lines = open(p, encoding="utf-8").read().split("\n")
    l0, l1 = f["l"] - 1, f["el"]
    n, i = 0, l0
    while i < l1:
        m = IFLET.match(lines[i])
        if m and "//" not in lines[i] and " && " not in m.group(4) and "let " not in m.group(4):
            ind = m.group(1)
            jb = _if_blocks(lines, i, ind)
            if jb and jb[1] < l1:
                j, k = jb
                then_, else_ = lines[i + 1:j], lines[j + 1:k]
                tail = lines[k][len(ind) + 1:]
                new = [f"{ind}{m.group(2)}match {m.group(4)} {{", f"{ind}    {m.group(3)} => {{"] + ["    " + x for x in then_] + [f"{ind}    }}", f"{ind}    _ => {{"] + \
                      ["    " + x for x in else_] + [f"{ind}    }}", f"{ind}}}{tail}"]
                lines[i:k + 1] = new
                n += 1
                l1 += len(new) - (k + 1 - i)
                i += len(new)
                continue
        i += 1
    if n:
        open(p, "w", encoding="utf-8").write("\n".join(lines))
    return n


def mutate_isempty(repo, f):
    """`!x.is_empty()` -> `(x.len() > 0)`, `x.is_empty()` -> `(x.len() == 0)`"""
    p = os.path.join(repo, f["file"])
    lines = open(p, encoding="utf-8").read().split("\n")
    l0, l1 = f["l"] - 1, f["el"]
    n = 0
    for i in range(l0, min(l1, len(lines))):
        ln = lines[i]
        if "is_empty()" not in ln or ln.lstrip().startswith("//") or ln.lstrip().startswith("."):
            continue
        new = re.sub(r"!((?:\w+(?:\(\))?\.)*\w+(?:\(\))?)\.is_empty\(\)", r"(\1.len() > 0)", ln)
        new = re.sub(r"(?<![\w\.\)])((?:\w+(?:\(\))?\.)*\w+(?:\(\))?)\.is_empty\(\)", r"(\1.len() == 0)", new)
        if new != ln:
            lines[i] = new
            n += 1
    if n:
        open(p, "w", encoding="utf-8").write("\n".join(lines))
    return n


def mutate_tailret(repo, f):
    """the tail expression `e` of the function becomes `return e;`"""
    p = os.path.join(repo, f["file"])
    lines = open(p, encoding="utf-8").read().split("\n")
    l0, l1 = f["l"] - 1, f["el"] - 1            # l1: the line of the closing brace
    if l1 <= l0 + 1 or lines[l1].strip() != "}":
        return 0
    ind = lines[l1][:len(lines[l1]) - len(lines[l1].lstrip())] + "    "
    end = l1 - 1
    while end > l0 and not lines[end].strip():
        end -= 1
    if lines[end].rstrip().endswith(";") or lines[end].lstrip().startswith("//"):
        return 0
    start = end
    while start > l0 and not (lines[start].startswith(ind) and not lines[start].startswith(ind + " ") and lines[start][len(ind):len(ind) + 1] not in "})].?"):
        start -= 1
    if start <= l0:
        return 0
    head = lines[start][len(ind):]
    if head.startswith(("let ", "for ", "while ", "loop", "return", "//", "#[", "fn ", "use ", "if ", "match ", "unsafe")):
        return 0
    # the signature must be over (the body starts at or before `start`)
    if not any(lines[i].rstrip().endswith("{") for i in range(l0, start)):
        return 0
    lines[start] = ind + "return " + head
    lines[end] = lines[end] + ";"
    open(p, "w", encoding="utf-8").write("\n".join(lines))
    return 1


def mutate_logstmt(repo, f):
    """a `log::trace!(..)` statement is inserted after every single-line `let` of the function: rules that read "the statement before / after" must not care"""
    p = os.path.join(repo, f["file"])
    lines = open(p, encoding="utf-8").read().split("\n")
    l0, l1 = f["l"] - 1, f["el"]
    out, n = [], 0
    for i, ln in enumerate(lines):
        out.append(ln)
        m = LET.match(ln) if l0 < i < l1 else None
        if m and n < 60:
            out.append(f'{m.group(1)}log::trace!("sweep {n}");')
            n += 1
    if n:
        open(p, "w", encoding="utf-8").write("\n".join(out))
    return n


EQ = re.compile(r"(?P<pre>\(|\bif |\bwhile |&& |\|\| |= |, |return )(?P<a>!?(?:\w+(?:\(\))?\.)*\w+(?:\(\))?) (?P<op>==|!=) (?P<b>(?:\w+::)*\w+(?:\(\))?|'(?:\\.|[^'\\])'|\"[^\"]*\")(?P<post>\)| \{| &&| \|\||;|,)")


def mutate_eqswap(repo, f):
    """`a == b` -> `b == a` (and `!=`) for simple operands: equality is symmetric"""
    p = os.path.join(repo, f["file"])
    lines = open(p, encoding="utf-8").read().split("\n")
    l0, l1 = f["l"] - 1, f["el"]
    n = 0
    for i in range(l0, min(l1, len(lines))):
        ln = lines[i]
        if ln.lstrip().startswith("//") or ("==" not in ln and "!=" not in ln):
            continue
        def sw(m):
            if m.group("a").startswith("!"):
                return m.group(0)
            return f"{m.group('pre')}{m.group('b')} {m.group('op')} {m.group('a')}{m.group('post')}"
        new = EQ.sub(sw, ln)
        if new != ln:
            lines[i] = new
            n += 1
    if n:
        open(p, "w", encoding="utf-8").write("\n".join(lines))
    return n


def mutate(repo, f):
    if MODE == "logstmt":
        return mutate_logstmt(repo, f)
    if MODE == "eqswap":
        return mutate_eqswap(repo, f)
    if MODE == "tailret":
        return mutate_tailret(repo, f)
    if MODE == "ifnot":
        return mutate_ifnot(repo, f)
    if MODE == "iflet":
        return mutate_iflet(repo, f)
    if MODE == "isempty":
        return mutate_isempty(repo, f)
    if MODE == "swaparms":
        return mutate_swaparms(repo, f)
    if MODE == "letalias":
        return mutate_letalias(repo, f)
    p = os.path.join(repo, f["file"])
    lines = open(p, encoding="utf-8").read().split("\n")
    l0, l1 = f["l"] - 1, f["el"]
    names = binders(f["body"]) - {p_["name"] for p_ in f.get("params", []) if isinstance(p_, dict) and "name" in p_} - {"self"}
    if not names:
        return 0
    region = "\n".join(lines[l0:l1])
    new = rename_region(region, names)
    if new == region:
        return 0
    open(p, "w", encoding="utf-8").write("\n".join(lines[:l0] + new.split("\n") + lines[l1:]))
    return len(names)


def anchored_functions(syn):
    anch = set()
    for rf in glob.glob(os.path.join(VERIF, "sa", "rules", "C*.py")):
        for m in re.finditer(r'syn\.fn\("([^"]+)"', open(rf).read()):
            anch.add(m.group(1))
    out = {}
    for a in sorted(anch):
        try:
            f = syn.fn(a)
        except Exception:
            cands = [g for g in syn.fns if g["path"].endswith(a) and "body" in g]
            if len(cands) != 1:
                continue
            f = cands[0]
        if "body" in f and "el" in f:
            out[f["path"]] = f
    # also every function of the files the properties anchor most rules in
    return out


MODE = "rename"


def main():
    global MODE
    args = sys.argv[1:]
    if "--mode" in args:
        MODE = args[args.index("--mode") + 1]
    jobs = 1
    only = None
    keep = None
    if "-j" in args:
        jobs = int(args[args.index("-j") + 1])
    if "--only" in args:
        only = args[args.index("--only") + 1]
    if "--keep-failing" in args:
        keep = args[args.index("--keep-failing") + 1]
        os.makedirs(keep, exist_ok=True)
    from core import Ctx
    import selftest
    syn = Ctx("quick", 0).syn
    fns = anchored_functions(syn)
    if only:
        fns = {k: v for k, v in fns.items() if only in k}
    if "--status" in args:
        want = args[args.index("--status") + 1]
        prev = json.load(open(os.path.join(VERIF, ".cache", f"alpha_sweep{'' if MODE == 'rename' else '_' + MODE}.json")))
        fns = {k: v for k, v in fns.items() if prev.get(k, [None])[0] == want}
    print(f"{len(fns)} anchored functions")
    selftest.make_copy_head()
    slots = queue.Queue()
    for i in range(jobs):
        selftest.worker_target(i)
        slots.put(i)
    results = {}

    def one(path):
        f = fns[path]
        i = slots.get()
        selftest._slot.i = i
        repo = selftest.make_copy()
        try:
            n = mutate(repo, f)
            if n == 0:
                results[path] = ("skip", "nothing to mutate")
                return
            env = dict(os.environ, CARGO_NET_OFFLINE="true", CARGO_TARGET_DIR=os.path.join(VERIF, ".cache", f"alpha-target-w{i}"))
            r = subprocess.run(["cargo", "check", "--offline", "-q", "-p", "prqlc", "-p", "prqlc-parser", "--lib"], cwd=repo, env=env, stdout=subprocess.PIPE, stderr=subprocess.STDOUT, text=True)
            if r.returncode != 0:
                err = [l for l in r.stdout.splitlines() if l.startswith("error")][:2]
                results[path] = ("nocompile", f"{n} names; " + " | ".join(err)[:160])
                return
            bad = []
            for pid in ALLP:
                rc, out = selftest.run_check(pid, repo)
                if rc != 0:
                    bad.append(pid + ": " + "; ".join(l.strip()[:140] for l in out.splitlines() if l.strip().startswith("FAIL"))[:400])
            if bad:
                results[path] = ("ALARM", f"{n} site(s) mutated ({MODE}): {bad}")
                if keep:
                    d = subprocess.run(["diff", "-u", os.path.join(REPO, f["file"]), os.path.join(repo, f["file"])], stdout=subprocess.PIPE, text=True).stdout
                    open(os.path.join(keep, path.replace("::", "__").replace("/", "_").replace("<", "").replace(">", "").replace(" ", "_")[:120] + ".diff"), "w").write(d)
            else:
                results[path] = ("ok", f"{n} site(s) mutated ({MODE}), all checks silent")
        except Exception as e:
            results[path] = ("error", repr(e)[:200])
        finally:
            shutil.rmtree(repo, ignore_errors=True)
            slots.put(i)
    with ThreadPoolExecutor(max_workers=jobs) as ex:
        list(ex.map(one, sorted(fns)))
    for p_ in sorted(results):
        print(f"  [{results[p_][0]:9}] {p_}: {results[p_][1]}")
    c = {}
    for v in results.values():
        c[v[0]] = c.get(v[0], 0) + 1
    print("alpha sweep:", c)
    allp = os.path.join(VERIF, ".cache", f"alpha_sweep{'' if MODE == 'rename' else '_' + MODE}.json")
    merged = json.load(open(allp)) if os.path.exists(allp) and ("--status" in args or only) else {}
    merged.update({k: list(v) for k, v in results.items()})
    json.dump(merged, open(allp, "w"), indent=1)
    return 1 if c.get("ALARM") else 0


if __name__ == "__main__":
    sys.exit(main())
