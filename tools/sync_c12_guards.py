#!/usr/bin/env python3
"""Developer tool (never run by a check): set the `guarded` numbers of reviewed/c12_classes.json to what the local provers discharge on /repo's tree."""
import json, os, sys
VERIF = os.path.dirname(os.path.dirname(os.path.abspath(__file__)))
sys.path[:0] = [os.path.join(VERIF, "sa", "py"), os.path.join(VERIF, "sa", "rules")]
from core import Ctx
import panics, C12
c = Ctx("quick", 0)
g = C12.guarded_counts(panics.collect(c.cg, c.syn), c.syn)
p = os.path.join(VERIF, "reviewed", "c12_classes.json")
d = json.load(open(p))
n = 0
for r in d["rows"]:
    k = tuple(r["key"])
    if k in g and g[k]["guarded"] != r.get("guarded", 0) and g[k]["guarded"] > 0:
        print(k, r.get("guarded"), "->", g[k]["guarded"])
        r["guarded"] = g[k]["guarded"]
        n += 1
json.dump(d, open(p, "w"), indent=1)
print(n, "rows updated")
