"""Source of MANIFEST.json: per-property claim text.  A property is listed as a check
only when sa/rules/<id>.py exists."""

HOOK_COMMITS = []

NOTES = (
    "Static analysis only: every check reads /repo's current source (syn syntax trees, rustc HIR/MIR facts, "
    "the two declarative .prql library files) and decides structural necessary conditions of the property; "
    "nothing compiles a PRQL query or runs prqlc. Each property's level_note states what is NOT decided. "
    "Genuine defects found are repaired by `fix:` commits in /repo or listed in known_findings.json."
)

NOT_APPLICABLE = {}


def claim(text, note, technique, ref, mir=False, std=False):
    return {"text": text, "note": note, "technique": technique, "design_ref": ref, "mir": mir, "std": std}


CLAIMS = {
    "C01": claim(
        "Decides structural necessary conditions: the clause-order table that forces sub-queries covers SQL's evaluation "
        "order; empty-input values (COALESCE defaults, COUNT(*)) agree across base and dialect overrides; WHERE/HAVING "
        "routing; redirects reach every column-id field. Does not decide result equality on databases.",
        "Trusted: oracles/sql_clause_order.json, prql_std.json; not decided: cid bookkeeping across splits, take arithmetic values, prune_inputs liveness.",
        "table extraction from match arms + oracle comparison; fold-exhaustiveness check", "DESIGN.md 4 C01", std=True),
    "C02": claim(
        "Decides: Pratt table = documented table; operator->std map and pow order; one SQL strength scale ordered as "
        "PostgreSQL/T-SQL with non-associative comparisons; for all SQL templates x dialects the declared strength and every "
        "hole strength guard their operator context (incl. `--` fusion); needs_parentheses shape; null tests; folding "
        "table; operator-name closure. A wrong number in any of these tables passes all snapshot tests.",
        "Trusted: oracles/prql_precedence.json, sql_precedence.json, prql_std.json. Not decided: numeric results of SQL "
        "arithmetic per database; dialects whose own precedence differs from the PostgreSQL order (SQLite LIKE vs =).",
        "extracted-table vs oracle/sibling comparison; SQL template operator-context analysis", "DESIGN.md 4 C02", std=True),
    "C03": claim(
        "Decides: sorting transfer table of SortingInference, ORDER BY re-emission before take/at the end of the main "
        "pipeline, sort keys added to CTE projections only for non-main relations, Flattener sort discipline, and the "
        "LIMIT/OFFSET and range-composition formulas as linear forms.",
        "Not decided: row order returned by a database; which column an ORDER BY names after redirects.",
        "match-table extraction + linear-form normalisation + control-dependence on syntax trees", "DESIGN.md 4 C03"),
    "C04": claim(
        "Decides: window-kind table (rolling/expanding/rows/range), frame-bound sign table, default-frame elision equals "
        "SQL's default, frame-sensitive SQL functions carry window_frame in base and every override, take-in-group filter shape.",
        "Trusted: oracles/sql_window.json. Not decided: window values; split-before-filter for windowed columns.",
        "table extraction vs oracle; sibling agreement across dialect overrides", "DESIGN.md 4 C04", std=True),
    "C05": claim(
        "Decides: select arity by construction (one unzip), helper sort columns pushed only under !main_relation, "
        "limiting SELECT in extract_atomic, alias rule in translate_select_item, no silent widening in translate_exclude.",
        "Not decided: names a database reports for `*`; which names collide at run time.",
        "control-dependence / must-pass-through on syntax trees", "DESIGN.md 4 C05"),
    "C06": claim(
        "Decides the structural necessary conditions of four clauses only: consecutive filters of a SELECT are AND-ed in order and `&&` is "
        "std.and (split conjunctive filter); the PL variable definition has no field that records `let` / `into` and the AST expansion does "
        "not read the kind (into = let); a piped value is the one further argument of the next element, folded left to right (piped "
        "argument); a named parameter gets the supplied named argument, else its declared default. Does NOT decide that the two "
        "spellings return the same rows.",
        "Not decided (value-dependent, no code shape whose breakage necessarily changes a result): let-table inlining vs CTE, beta-reduction "
        "of user-function bodies, module paths, identity transforms, everything the SQL back-end does with the two programs.",
        "borrowed table rows (C01.R3, C02.R2) + ADT field inventory + call-shape / value-flow checks on syntax trees", "DESIGN.md 4 C06"),
    "C07": claim(
        "Decides: every SQL implementation (base + 11 dialect modules) takes its holes from its own parameters at the "
        "positions of the std.prql declaration; closure of internal names, dialect module names and null-bodied operators; "
        "unsupported = error; push/pop pairing of query scope; placeholders for empty projections/relations/IN lists; "
        "relation naming pass order; Dialect::handler totality.",
        "Not decided: that emitted text parses and binds in each of 12 engines.",
        "interface agreement of sibling implementations; name-closure; pairing", "DESIGN.md 4 C07", std=True),
    "C08": claim(
        "Decides: who may construct SQL string/number literal values (only translate_literal and the date/time helpers); "
        "the string sink is sqlparser's heuristic escaper with no sanitiser on any path (known finding); no silent numeric "
        "defaults in the lexer; float literals finite-guarded; escape table is a function.",
        "Trusted: oracles/libs.json (sqlparser 0.60 EscapeQuotedString heuristic). Not decided: value a database assigns to emitted text.",
        "who-may-construct + source->sink path rule + lexer table checks", "DESIGN.md 4 C08", mir=True),
    "C09": claim(
        "Decides: bare-identifier regex language is within the safe class (enumerated), quoting is total, keyword tables "
        "are upper-case and consulted per dialect, every generated table/column name is tested against names in scope, "
        "CTE/relation names go through translate_ident.",
        "Not decided: which object a name binds to in a database; clashes depending on the number of splits.",
        "regex-language enumeration + table hygiene + dominance of membership tests", "DESIGN.md 4 C09"),
    "C10": claim(
        "Decides: every single-element extraction from a lookup result is guarded by a cardinality test with an error on "
        ">1; arity / unknown-named-argument errors exist; column inference only from wildcard frames; type validation on the "
        "call path; relation/scalar confusion errors; pass-through fallback of lower_expr is listed (known finding).",
        "Not decided: that every ill-scoped program reaches one of the guarded sites.",
        "guard-dominance over syntax trees at enumerated sites", "DESIGN.md 4 C10"),
    "C11": claim(
        "Decides purity structurally: inventory of statics with interior mutability reachable from the entry points "
        "(only init-once caches and a write-only log), ambient inputs (env/time/fs/rand) reachable from entry points, and "
        "every HashMap/HashSet iteration reachable from entry points classified order-insensitive or reviewed/known.",
        "Assumes sort keys used as stabilisers are injective (A5); call graph over-approximated through trait impls (A6).",
        "resolved call-graph reachability (rustc MIR) + hash-iteration consumer classification", "DESIGN.md 4 C11", mir=True),
    "C12": claim(
        "Decides: every panic-capable site (unwrap/expect/panic!/index/assert, MIR bounds and div-by-zero asserts) reachable "
        "from the public entry points belongs to a reviewed invariant class or is a known finding; recursion SCCs "
        "reachable from entry points are inventoried; a new site class or a new unguarded recursion is reported.",
        "Not decided: time bounds, termination, stack depth in numbers; class reviews are human judgements recorded in reviewed/c12_classes.json.",
        "classed inventory over the resolved call graph (rustc MIR)", "DESIGN.md 4 C12", mir=True),
    "C13": claim(
        "Decides: unit (byte/char) of every Span construction and of the sinks that render locations; reasons are "
        "non-empty at every Error construction site; source-id map has a single writer and unknown ids are skipped.",
        "Trusted: ariadne 0.5.1 indexes by char by default (oracles/libs.json).",
        "units lattice over construction sites (syntax trees) + site inventory", "DESIGN.md 4 C13"),
    "C14": claim(
        "Decides: formatter keyword tables cover the lexer's, bare-identifier class agrees with the lexer, formatter "
        "strengths parenthesise every regrouping triple of the extracted Pratt table (exhaustive), literal printers keep "
        "the literal kind, string escapes invert the lexer's table, printing does not depend on hash order, printed "
        "operators re-lex to themselves.",
        "Not decided: line breaking and comments; tree equality for all programs.",
        "sibling-table agreement (lexer/parser vs formatter), exhaustive triple enumeration over extracted tables", "DESIGN.md 4 C14"),
    "C15": claim(
        "Decides: serde attribute discipline on every type reachable from the PL and RQ roots (skip_serializing_if needs "
        "default; flatten only on externally tagged enums; no skip on semantic fields), hand-written Serialize/Deserialize "
        "pairs agree, staged functions call the same pipeline as compile.",
        "Not decided: equality for all documents; float text round trip inside serde_json (trusted).",
        "attribute table rules over syntax trees + call-sequence agreement", "DESIGN.md 4 C15"),
    "C16": claim(
        "Decides the construction discipline in lowering: column/table ids only from the id generators, a Compute is "
        "pushed and mapped before its id is returned, pipelines are closed by push_select at the single construction site of "
        "RelationKind::Pipeline, table declarations precede instances, redirects follow pull-outs.",
        "Not decided: that node_mapping lookups hit (value-dependent; C12 classes); which node ids the resolver gives to an expression used twice, "
        "de-duplication of table-instance columns, hoisting order of window functions in join conditions (six causes of a non-closed RQ found by "
        "probing the unchanged tree, findings_detail/c16_c05_hunt, none detected).",
        "def-use / must-pass-through at construction sites", "DESIGN.md 4 C16"),
    "C17": claim(
        "Decides: token spans come from the consuming combinator's span in every Token construction, rejection returns no "
        "tokens, only inline whitespace is discarded between tokens, look-ahead accepts end of input.",
        "Trusted: chumsky sequencing and map_with span semantics (A4). Not decided: re-lexing each slice in isolation.",
        "combinator-chain rules over syntax trees", "DESIGN.md 4 C17"),
    "C18": claim(
        "Decides: header lookup is control-dependent on the absent option, unknown target is an error, default is generic, "
        "option value reaches the generator unchanged, resolver modules never mention the dialect/options.",
        "None beyond A1.",
        "control-dependence + who-may-mention over syntax trees and the resolved call graph", "DESIGN.md 4 C18"),
}


# rules that read driver (MIR / resolved type) facts
for _p in ("C02", "C08", "C09", "C10", "C11", "C12", "C13", "C15", "C16"):
    CLAIMS[_p]["mir"] = True

_PROBED = " Probing the unchanged tree (DESIGN.md 7.1, findings_detail/) "
_ADD = {
    "C01": "also decides: DISTINCT of recognised set operations read from the transform adjacent to the join; a relation taken to be defined is emitted as CTE or restored; set-operator table and quantifier decision; the recognisers of INTERSECT / EXCEPT accept only equalities paired by position; the split itself (a popped transform is pushed back or kept, one fresh id and one redirect per column at the cut, redirect-or-identity), the id generators of the SQL backend, Pluck / BreakUp, homomorphic generic folders.",
    "C03": "also decides: Flattener state isolated for join / append arguments; an ungrouped aggregate ends the order; only plain computes hoisted over take." + _PROBED + "found one more violation (sort surviving an ungrouped aggregate), since repaired.",
    "C04": "also decides: partition / frame do not leak into joined pipelines; RANGE offsets need a sort.",
    "C05": "also decides: star handling (adjacent absorption, options on both star forms), all-or-nothing s-string column extraction, the frame table of determine_select_columns." + _PROBED + "found accepted programs whose result columns bind to the wrong relation after a split; no rule detects them.",
    "C07": "also decides: clause phases (pre_projection / allow_stars), set-operation tables, flags written inside their query scope, per-SELECT relation names, fold exhaustiveness, RANGE frames with ORDER BY." + _PROBED + "found 18 accepted programs whose SQL sqlite rejects; 3 became rules, 15 are not detected by any rule.",
    "C08": "also decides: no text edit between the generated statement and the output, none on the way into a string literal; quotes read while probing a delimiter are restored; strings and raw strings translated alike; escapes decoded independently of the delimiter length.",
    "C09": "also decides: exact alias comparison, whole-identifier keys for de-duplication and for taken table names.",
    "C10": "also decides: scope pairing, rejections reachable, positive sub-type shortcuts, pass-through only without target, strip only the prepended module path, untyped operator is not a table." + _PROBED + "found two accepted ambiguous programs (same-named inputs overwrite each other in Module::insert_frame); not detected by any rule.",
    "C11": "also decides: source ids never ordering keys; no hash container debug-printed into error text; fallible steps over hash iterations.",
    "C12": "R9 lists 42 panic sites that probing reached with ordinary inputs (37 repaired, 5 known): the class reviews of R1 are human judgements and were wrong for those sites. R12 / R13 turn two such beliefs into checked obligations (a conversion unwrapped in a callee is made fallibly by every caller; every resolver TableDecl gets a relation type).",
    "C13": "also decides: spans that name no file of the tree are cleared." + _PROBED + "found eight further causes of imprecise (not out-of-file) locations; not rules.",
    "C14": "R14: eleven causes found by probing the formatter (6 repaired, 3 known, 2 variants of known findings); R11-R13 operands through write_within, raw names, aliases kept.",
    "C15": "also decides: serde_json float_roundtrip, reader depth bound (known), Span reader total." + _PROBED + "(~1 500 programs through both paths) found no further violation.",
    "C17": _PROBED.strip() + " enumerated 37 M short strings and 8 M random token concatenations against the tiling / re-lex clauses: no violation beyond the known end_expr look-ahead class. R6: every look-ahead of the lexer is consumed by the same token or accepts end of input.",
    "C18": "also decides: identity of the passed dialect, accepted target names = displayed names.",
    "C06": "also decides (borrowed or own): a let table referenced twice is defined or restored, a user-function call is its materialised body (only span overridden), merged takes compose like nested sub-queries, computes stay behind a take.",
    "C02": "also decides: binding strength is not erased across two functions (a flattener's result re-wrapped as an operand).",
}
for _p, _t in _ADD.items():
    CLAIMS[_p]["note"] = CLAIMS[_p]["note"].rstrip() + " " + _t
