#!/usr/bin/env python3
"""usage: benign_prompt.py <letter> <worktree> <function list file> -> prompt for an agent that writes behaviour-preserving refactorings"""
import sys
letter, wt, fl = sys.argv[1:4]
funcs = open(fl).read().strip()
print(f"""You are helping to evaluate a static-analysis tool for the PRQL compiler (repository max-sixty/prql, Rust). The tool must stay SILENT on code changes that do not change behaviour. Your job is to write 10 small BEHAVIOUR-PRESERVING REFACTORINGS of the compiler, each as an independent patch. You do not know how the tool works and must not read anything under /verif.

## Worktree
* A git worktree of the repository is ready at `{wt}` (detached HEAD). Work ONLY there; never edit or build in `/repo`; never commit.
* Build/test offline with `CARGO_TARGET_DIR={wt}-target`: `cd {wt} && CARGO_NET_OFFLINE=true CARGO_TARGET_DIR={wt}-target cargo nextest run --workspace --no-fail-fast --offline` (613 tests; all pass on the unchanged tree). The target directory may already hold a warm build.

## What to write
Ten patches, each a refactoring of ONE of the functions / items listed below (spread them over the list; at most two per function), each in a DIFFERENT style, for example: rename locals or closure parameters; introduce or remove an intermediate `let`; `if let` <-> `let else` <-> `match`; `matches!` <-> `match`; loop <-> iterator chain; nested fn <-> closure; extract a private helper function or inline one; De Morgan / swapped branches; early return <-> `else`; reorder independent statements or disjoint match arms; `x.map_or(..)` <-> `match`; `Option` combinators <-> explicit `match`; arithmetic rewritten in an equivalent form (`a + b - 1` <-> `a - 1 + b`); replace a literal by a named constant; split a long condition into named booleans.

Each patch must be STRICTLY behaviour-preserving for every input (same SQL / same errors / same formatted text, same iteration orders), must compile without new warnings that fail the build, and ALL 613 tests must pass with it (run the full suite for each patch). Do not touch tests, snapshots, comments only, or public API names; do not change any string that reaches output.

Functions / items to refactor (file: item):
{funcs}

## Artefacts
For n = 1..10 write `/tmp/benign-{letter}/{letter}-B<n>/patch.diff` (output of `git -C {wt} diff`, applies to the clean HEAD alone) and `/tmp/benign-{letter}/{letter}-B<n>/meta.json` = {{"style": "<refactoring style>", "file": "<path>", "function": "<item>", "why_equivalent": "<argument that behaviour is identical for every input>", "suite": "613 passed"}}. Start each patch from a clean worktree (`git -C {wt} checkout -- .`) and leave the worktree clean at the end. Reply with a one-line summary per patch.
""")
