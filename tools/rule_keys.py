#!/usr/bin/env python3
"""dev aid: tools/rule_keys.py C02 r11  -> prints every instance key of one rule function with its verdict"""
import importlib
import os
import sys

HERE = os.path.dirname(os.path.abspath(__file__))
sys.path.insert(0, os.path.join(HERE, "..", "sa", "py"))
sys.path.insert(0, os.path.join(HERE, "..", "sa", "rules"))
import core  # noqa: E402

mod = importlib.import_module(sys.argv[1])
ctx = core.Ctx("quick", 0)
rep = core.Report(sys.argv[1], "quick", 0)
getattr(mod, sys.argv[2])(ctx, rep)
for rid, r in rep.rules.items():
    for i in r["instances"]:
        print("ok  " if i["ok"] else "FAIL", rid, i["key"])
