#!/bin/bash
# usage: tools/confirm_seed.sh <seed-dir> ...   -- independently confirm seeded changes in a scratch worktree
# (applies, full test suite must be green, demo must fail; reverted: demo must pass). Writes <seed-dir>/confirm.json
WT=${WT:-/tmp/confirm-wt}
export CARGO_TARGET_DIR=${CONFIRM_TARGET:-/tmp/confirm-target}
export CARGO_NET_OFFLINE=true
HEAD=$(git -C /repo rev-parse HEAD)
if [ ! -d "$WT" ]; then git -C /repo worktree add -q --detach "$WT" "$HEAD" || exit 2; fi
git -C "$WT" checkout -q --detach "$HEAD" && git -C "$WT" checkout -q -- . 
LINKS=""
for d in "$@"; do
  name=$(basename "$d")
  # demos written by the seeding agents may hard-code their own worktree / target paths: point those at the scratch worktree
  prop=${name%%-*}
  for pair in "/tmp/wt-$prop:$WT" "/tmp/wt-$prop-target:$CARGO_TARGET_DIR"; do
    ln_path=${pair%%:*}; ln_to=${pair#*:}
    if [ ! -e "$ln_path" ]; then mkdir -p "$ln_to"; ln -s "$ln_to" "$ln_path"; LINKS="$LINKS $ln_path"; fi
  done
  echo "=== $name"
  git -C "$WT" checkout -q -- .
  base="$HEAD"
  if ! git -C "$WT" apply --check "$d/patch.diff" 2>/dev/null; then
    echo "patch does not apply at HEAD; skipping"; echo "{\"seed\":\"$name\",\"applies\":false}" > "$d/confirm.json"; continue
  fi
  git -C "$WT" apply "$d/patch.diff"
  suite=$(cd "$WT" && cargo nextest run --workspace --no-fail-fast --offline 2>&1 | grep -E "Summary|error:" | tail -2)
  echo "suite with change: $suite"
  (cd "$d" && REPO="$WT" WT="$WT" bash ./demo.sh "$WT" > "$d/confirm-demo-with.log" 2>&1); rc_with=$?
  git -C "$WT" checkout -q -- .
  (cd "$d" && REPO="$WT" WT="$WT" bash ./demo.sh "$WT" > "$d/confirm-demo-without.log" 2>&1); rc_without=$?
  echo "demo with change rc=$rc_with ; without rc=$rc_without"
  python3 - "$d" "$name" "$base" "$suite" "$rc_with" "$rc_without" <<'PY'
import json,sys
d,name,base,suite,rw,rwo=sys.argv[1:]
ok = ("613 passed" in suite) and int(rw)!=0 and int(rwo)==0
json.dump({"seed":name,"applies":True,"base":base,"suite_with_change":suite.strip(),"demo_rc_with_change":int(rw),"demo_rc_without_change":int(rwo),"confirmed":ok},open(d+"/confirm.json","w"),indent=1)
print("confirmed" if ok else "NOT CONFIRMED")
PY
done
for l in $LINKS; do [ -L "$l" ] && rm -f "$l"; done
