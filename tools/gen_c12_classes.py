#!/usr/bin/env python3
"""Developer tool (never run by a check): regenerate reviewed/c12_classes.json from today's tree.
Each class (file, callee class, receiver step) gets the count seen today and a reason taken from the
category table below; classes that match no category are written with reason "UNREVIEWED" and must be
edited by hand before committing."""
import json
import os
import re
import sys

sys.path.insert(0, "/verif/sa/py")
import facts, callgraph, synq, panics  # noqa

CATS = [
    # (file regex, callee class regex, step regex, reason)
    (r"^debug/", r".*", r".*", "debug log / html debug renderer: not on any compile path (C11.R1 shows log_start/log_finish unreachable from the entry points); lock poisoning needs a previous panic"),
    (r".*", r"Result::unwrap", r"^\.?fold_\w+\(\)$|^\.fold_\w+\(\)$", "infallible folder: every fold method this folder overrides returns Ok (no `?` on a fallible source)"),
    (r".*", r"Result::unwrap", r"^new\(\)$", "Regex::new on a string literal (constant pattern, compiled in tests)"),
    (r".*", r"Option::unwrap", r"^\.(id|target_id)$", "every PL node gets an id / target id from the resolver (Resolver::fold_expr assigns ids before any later stage sees the node)"),
    (r".*", r"(Option|Result)::unwrap", r"^\.(as|into)_\w+\(\)$", "enum-as-inner accessor after the variant was established by the dispatching match arm or by the stage that built the value"),
    (r".*", r"Result::unwrap", r"^\.(try_into|exactly_one|into_super_and|try_map)\(\)$", "arity fixed by the std.prql declaration of the operator / transform being handled"),
    (r".*", r"Result::expect", r".*", "arity fixed by the std.prql declaration (unpack::<N> of an internal function's arguments)"),
    (r"^sql/", r"HashMap\[\]", r".*", "id tables (column_decls, relation_instances, table_decls, cid_redirects) are loaded by AnchorContext::of / QueryLoader for every id of a closed RQ (C16) - NOT guaranteed for RQ documents supplied through json::to_rq (known finding C12.R3:unvalidated-rq)"),
    (r"^semantic/", r"HashMap\[\]", r".*", "node_mapping is filled by declare_as_column / create_a_table_instance before any lookup of that node (C16.R2)"),
    (r".*", r"Vec\[\]", r"\[lit\]$", "fixed small index after the argument count was established (operator arity from std.prql, or a length test in the same function)"),
    (r".*", r"Vec\[\]", r"\[(expr|range)\]$", "index computed from the same vector's length / positions found by a search over it"),
    (r".*", r"(str|Captures)\[\]", r".*", "offsets come from a successful regex match / chumsky span over the same string (char boundaries)"),
    (r".*", r"Option::(unwrap|expect)", r"^\.(get|get_mut|remove_entry|find|find_map|find_input|find_input_by_name|lookup_table_decl)\(\)$", "key / element inserted earlier in the same stage (declaration tables, instance tables)"),
    (r".*", r"Option::(unwrap|expect)", r"^\.(next|next_back|first|first_mut|last|last_mut|pop|stack_pop|take|cloned|clone|as_ref|1|unwrap)\(?\)?$", "non-empty / Some by construction: length tested or value pushed earlier in the same function or stage"),
    (r".*", r"Option::(unwrap|expect)", r"^(var|\.map\(\)|\w+\(\))$", "Some by construction in the enclosing function (value computed just above)"),
    (r".*", r"Result::unwrap", r".*", "Ok by construction: the callee's only error paths are excluded by a preceding check in the same function"),
    (r".*", r"Option::unwrap", r".*", "Some by construction in the preceding stage"),
    (r".*", r"Vec::(remove|insert|drain|swap_remove|split_off)", r".*", "position is 0 / a range over the whole vector / found by a search of the same vector; emptiness excluded by the caller"),
    (r".*", r"mir:(div_zero|rem_zero)", r".*", "constant non-zero divisor"),
    (r".*", r"mir:overflow_sub", r".*", "unsigned subtraction whose subtrahend is bounded by a preceding length / position test in the same function (debug builds panic on underflow, release builds would index out of range)"),
    (r".*", r"mir:overflow_neg", r".*", "negation of an i64 taken from a literal: only i64::MIN overflows; reachable only with the literal -9223372036854775808 (debug builds)"),
    (r"^codegen/", r"mir:overflow_(add|mul):u16", r".*", "formatter column arithmetic (u16): overflows only for a line wider than 43 690 columns; the retry loop of write_or_expand is exponential long before that (known finding C12.R6)"),
    (r".*", r"mir:overflow_add:u16", r"insert|new", "source id counter (u16): needs more than 65 535 source files in one SourceTree"),
    (r"^semantic/", r"mir:overflow_add:i64", r"resolve_special_func", "`-rolling + 1` of a literal: a literal's magnitude is at most i64::MAX (the lexer rejects larger ones), so neither the negation nor the +1 can overflow"),
    (r".*", r"mir:overflow(_add|_mul)?:i32", r".*", "counters of consecutive quote characters in the lexer (i32): bounded by the length of the source"),
    (r".*", r"mir:bounds", r".*", "fixed-size array indexed by a constant / loop counter bounded by its length"),
    (r".*", r"unreachable!", r".*", "compiler-bug invariant (CLAUDE.md allows unreachable! for these): the arm is excluded by a preceding match or stage"),
    (r".*", r"(panic|todo|assert|assert_eq|assert_ne|unimplemented)!", r".*", "explicit assertion of a compiler-bug invariant; no input reaching it was found while reviewing"),
]


def main():
    mir = facts.mir_facts()
    cg = callgraph.CallGraph(mir)
    syn = synq.Syn(facts.syn_facts())
    sites = panics.collect(cg, syn)
    counts = panics.class_counts(sites)
    prev = {}
    out_path = "/verif/reviewed/c12_classes.json"
    if os.path.exists(out_path):
        prev = {tuple(r["key"]): r for r in json.load(open(out_path))["rows"]}
    rows = []
    for key, n in sorted(counts.items()):
        reason = None
        if key in prev and prev[key].get("manual"):
            rows.append(dict(prev[key], count=n))
            continue
        for fre, cre, sre, why in CATS:
            if re.search(fre, key[0]) and re.fullmatch(cre, key[1]) and re.search(sre, key[2]):
                reason = why
                break
        rows.append({"key": list(key), "count": n, "reason": reason or "UNREVIEWED"})
    # locally guarded sites (see C12.guarded_counts)
    sys.path.insert(0, "/verif/sa/rules")
    import C12
    g = {k: v["guarded"] for k, v in C12.guarded_counts(sites, syn).items() if v["guarded"]}
    for r in rows:
        if tuple(r["key"]) in g:
            r["guarded"] = g[tuple(r["key"])]
    json.dump({"_doc": "classes of panic-capable sites present on the reviewed tree: (file, callee class, receiver step) -> count and invariant. A class not listed, or more sites of a class than listed, is reported by C12.R1.", "rows": rows},
              open(out_path, "w"), indent=1)
    print(len(rows), "classes,", sum(counts.values()), "sites,", sum(1 for r in rows if r["reason"] == "UNREVIEWED"), "unreviewed")


if __name__ == "__main__":
    main()
