#!/usr/bin/env python3
"""Regenerate /verif/MANIFEST.json from tools/manifest_src.py (claims, notes) and validate it."""
import json
import os
import subprocess
import sys

HERE = os.path.dirname(os.path.abspath(__file__))
VERIF = os.path.dirname(HERE)
sys.path.insert(0, HERE)
import manifest_src as M  # noqa

checks = []
for pid, c in M.CLAIMS.items():
    if not os.path.exists(os.path.join(VERIF, "sa", "rules", pid + ".py")):
        continue
    checks.append(
        {
            "property_id": pid,
            "quick_cmd": f"./check {pid} --tier quick",
            "thorough_cmd": f"./check {pid} --tier thorough",
            "evidence_file": f"evidence/{pid}.json",
            "replay_cmd_template": f"./check {pid} --explain {{path}}",
            "engine": "prql-static",
            "level_claimed": {"category": "other", "text": c["text"], "design_ref": c["design_ref"]},
            "level_note": c["note"],
            "technique": c["technique"],
        }
    )
claimed = {c["property_id"] for c in checks}
na = []
for pid, reason in M.NOT_APPLICABLE.items():
    na.append({"property_id": pid, "reason": reason})
for pid, c in M.CLAIMS.items():
    if pid not in claimed:
        na.append({"property_id": pid, "reason": "check not built yet in this round (planned: " + c["technique"] + ")"})
na.sort(key=lambda x: x["property_id"])
hooks_commits = M.HOOK_COMMITS
man = {
    "version": 1,
    "setup_cmd": "./check --setup",
    "hooks": {
        "guard": "max_sixty_prql_verif",
        "enable": "none needed: the checks read source and compiler IR of the unmodified tree (no hooks, no instrumentation)",
        "baseline_off_cmd": "/verif/tools/repo_tests.sh",
        "source_commits": hooks_commits,
        "add_only": True,
    },
    "engines": [
        {"name": "synfacts", "path": "sa/synfacts", "serves_properties": sorted(claimed),
         "kind_free_text": "syn-2 syntax-tree dump of every non-test item of prqlc and prqlc-parser (match tables, combinator chains, struct literals, attributes)"},
        {"name": "prql-facts", "path": "sa/driver", "serves_properties": [p for p in sorted(claimed) if M.CLAIMS[p].get("mir")],
         "kind_free_text": "rustc_private driver under cargo +nightly check (RUSTC_WORKSPACE_WRAPPER): resolved call graph, panic-capable MIR terminators, ADT construction sites, statics"},
        {"name": "stdlib/sqltmpl", "path": "sa/py", "serves_properties": [p for p in sorted(claimed) if M.CLAIMS[p].get("std")],
         "kind_free_text": "parser for std.prql / std.sql.prql and SQL-template operator-context analyser"},
        {"name": "rules", "path": "sa/rules", "serves_properties": sorted(claimed),
         "kind_free_text": "one python module per property: table-vs-oracle, sibling agreement, who-may-call, must-pass-through, classed inventories"},
    ],
    "checks": checks,
    "not_applicable": na,
    "notes": M.NOTES,
}
out = os.path.join(VERIF, "MANIFEST.json")
with open(out, "w") as f:
    json.dump(man, f, indent=1)
# validate
try:
    import jsonschema
    jsonschema.validate(man, json.load(open("/root/.vp/MANIFEST.schema.json")))
    print("MANIFEST.json valid;", len(checks), "checks,", len(na), "not_applicable")
except ImportError:
    r = subprocess.run(["python3-vt", "-c",
                        "import json,jsonschema,sys;jsonschema.validate(json.load(open(sys.argv[1])),json.load(open('/root/.vp/MANIFEST.schema.json')));print('MANIFEST.json valid')", out])
    print(len(checks), "checks,", len(na), "not_applicable")
    sys.exit(r.returncode)
