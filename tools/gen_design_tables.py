#!/usr/bin/env python3
"""Rewrite the generated tables of DESIGN.md (between <!-- BEGIN x --> / <!-- END x --> markers)."""
import json, os, re, subprocess
V = "/verif"
def seeds_table():
    rows = []
    for name in sorted(os.listdir(f"{V}/seeded")):
        mp = f"{V}/seeded/{name}/meta.json"
        if not os.path.exists(mp):
            continue
        m = json.load(open(mp))
        conf = m.get("confirmed_by_me", {})
        rows.append(f"| {name} | {m.get('summary','').replace('|','/')[:150]} | {m.get('needs','').replace('|','/')[:120]} | {m.get('caught_by','-')} | {m.get('detection','?')} | {'yes' if conf.get('confirmed') else '?'} |")
    head = "| seed | change | needs to manifest | caught by | first run | confirmed |\n|---|---|---|---|---|---|\n"
    # first-run statistics per round (a seed counts as caught only if the check of ITS OWN property named it when it arrived)
    import collections
    stats = collections.defaultdict(collections.Counter)
    for name in sorted(os.listdir(f"{V}/seeded")):
        mp = f"{V}/seeded/{name}/meta.json"
        if os.path.exists(mp):
            m = json.load(open(mp))
            stats[int(re.search(r"-r(\d+)-", name).group(1)) if re.search(r"-r(\d+)-", name) else 1][(name.split("-")[0], m.get("detection"))] += 1
    lines = []
    for rnd in sorted(stats):
        if not stats[rnd]:
            continue
        c = stats[rnd]
        props = sorted({k[0] for k in c})
        per = ", ".join(f"{p_} {c[(p_, 'caught')]}/{c[(p_, 'caught')] + c[(p_, 'missed')]}" for p_ in props)
        tot_c = sum(v for k, v in c.items() if k[1] == "caught")
        tot = sum(c.values())
        lines.append(f"* round {rnd}: **{tot_c} of {tot}** caught at first run ({per})")
    summary = "First-run detection (before any rule was added for the seed):\n\n" + "\n".join(lines) + \
        "\n\nAfter the strengthening recorded in the table every seed is caught by the check of its own property (`./check --selftest`).\n\n"
    return summary + head + "\n".join(rows)
def findings_table():
    k = json.load(open(f"{V}/known_findings.json"))["findings"]
    fixed = {}
    known = []
    for e in k:
        if e.get("status") == "fixed":
            fixed.setdefault((e["property"], e.get("commit"), e["what"]), []).append(e["key"])
        else:
            known.append(e)
    out = "**Repaired (`fix:` commits in /repo; the rule passes on the repaired tree and fires again if the defect returns)**\n\n| property | commit | what failed | rule keys |\n|---|---|---|---|\n"
    for (p, c, w), keys in sorted(fixed.items()):
        ks = ", ".join(keys[:3]) + (f" (+{len(keys)-3} more)" if len(keys) > 3 else "")
        out += f"| {p} | {c} | {w.replace('|','/')[:260]} | {ks.replace('|','/')} |\n"
    out += "\n**Known findings (genuine, not repaired; suppressed by exact key in known_findings.json)**\n\n| property | key | what fails / why not repaired |\n|---|---|---|\n"
    for e in sorted(known, key=lambda e: (e["property"], e["key"])):
        out += f"| {e['property']} | `{e['key'].replace('|','/')}` | {e['what'].replace('|','/')[:420]} |\n"
    return out
def commits_table():
    r = subprocess.run(["git", "-C", "/repo", "log", "--format=%h %s", "c171eb7..HEAD"], capture_output=True, text=True).stdout.strip().splitlines()
    return "\n".join(f"* `{l.split()[0]}` {' '.join(l.split()[1:])}" for l in reversed(r))
p = f"{V}/DESIGN.md"
s = open(p).read()
for name, fn in (("SEEDS", seeds_table), ("FINDINGS", findings_table), ("COMMITS", commits_table)):
    body = f"<!-- BEGIN {name} -->\n{fn()}\n<!-- END {name} -->"
    s = re.sub(rf"<!-- BEGIN {name} -->.*?<!-- END {name} -->", lambda m, b=body: b, s, flags=re.S)
open(p, "w").write(s)
print("tables regenerated")
