#!/bin/bash
# the repository's pinned baseline suite (command of /root/.vp/BASELINE.json); no verification guard exists to switch off
cd /repo && exec cargo nextest run --workspace --no-fail-fast --tool-config-file pb:/w/lib/nextest.toml --profile pb --test-threads 8 --offline "$@"
