#!/bin/bash
# developer tool: the two mutators that alarmed in the last complete sweep, again over all anchored functions
cd "$(dirname "$0")/.."
./check --setup >/dev/null 2>&1
for m in eqswap iflet; do echo "=== mode $m"; python3 tools/alpha_sweep.py -j ${J:-10} --mode $m 2>&1 | grep -v "^WARNING" | grep "ALARM\|^alpha sweep"; done
