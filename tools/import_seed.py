#!/usr/bin/env python3
"""usage: import_seed.py <seed-dir> <caught_by rule(s)> <initially: caught|missed> [note]
Copies a confirmed seeded change into /verif/seeded/<name>/ and completes meta.json."""
import json, os, shutil, sys
src, caught_by, initially = sys.argv[1:4]
note = sys.argv[4] if len(sys.argv) > 4 else ""
name = os.path.basename(src.rstrip("/"))
dst = os.path.join("/verif/seeded", name)
os.makedirs(dst, exist_ok=True)
for f in os.listdir(src):
    if f.endswith((".diff", ".sh", ".rs", ".json", ".prql", ".py")):
        shutil.copy(os.path.join(src, f), os.path.join(dst, f))
meta = json.load(open(os.path.join(dst, "meta.json")))
conf = json.load(open(os.path.join(dst, "confirm.json"))) if os.path.exists(os.path.join(dst, "confirm.json")) else {}
meta["confirmed_by_me"] = conf
meta["what_i_ran"] = ["tools/confirm_seed.sh (scratch worktree /tmp/confirm-wt: git apply, full nextest suite, demo with change, revert, demo without change)",
                      "tools/try_seed.sh (git -C /repo apply; ./check <property>; git -C /repo checkout -- .)"]
meta["caught_by"] = caught_by
meta["detection"] = initially
if note:
    meta["note"] = note
json.dump(meta, open(os.path.join(dst, "meta.json"), "w"), indent=1)
print("imported", name)
