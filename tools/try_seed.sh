#!/bin/bash
# usage: tools/try_seed.sh <patch.diff> <PROP> [<PROP>...]  -- apply a seeded change to /repo, run checks, undo it
patch="$1"; shift
cd /repo || exit 2
if [ -n "$(git status --porcelain --untracked-files=no)" ]; then echo "repo dirty"; exit 2; fi
git apply "$patch" || { echo "patch does not apply"; exit 3; }
rc=0
for p in "$@"; do
  /verif/check "$p" 2>&1 | grep -E "^VIOLATION|FAIL|-> " | cut -c1-260
done
git checkout -- . 
