#!/bin/bash
# usage: tools/try_benign.sh <abs patch.diff>   -- apply a behaviour-preserving edit to /repo, run EVERY check, undo it.
# Any FAIL line is a false alarm of the machinery.
patch="$1"
cd /repo || exit 2
if [ -n "$(git status --porcelain --untracked-files=no)" ]; then echo "repo dirty"; exit 2; fi
git apply "$patch" || { echo "patch does not apply"; exit 3; }
for p in C01 C02 C03 C04 C05 C06 C07 C08 C09 C10 C11 C12 C13 C14 C15 C16 C17 C18; do
  /verif/check "$p" 2>&1 | grep -E "^\s*FAIL" | cut -c1-300 | sed "s/^/$p: /"
done
git checkout -- .
