#!/bin/bash
# developer tool: every alpha_sweep mutator over all rule-anchored functions (never run by a check)
cd "$(dirname "$0")/.."
./check --setup >/dev/null 2>&1
for m in rename letalias ifnot swaparms iflet isempty tailret eqswap logstmt; do
  echo "=== mode $m"
  python3 tools/alpha_sweep.py -j ${J:-6} --mode $m 2>&1 | grep -v "^WARNING" | tail -12
done
