#!/usr/bin/env python3
"""usage: mkprompt.py <PROP> <round-tag> -> prints the prompt for a seeding agent (property text only)"""
import json, sys
pid, tag = sys.argv[1], sys.argv[2]
extra = sys.argv[3] if len(sys.argv) > 3 else ""
prop = None
for l in open('/verif/properties.jsonl'):
    d = json.loads(l)
    if d['id'] == pid:
        prop = d
wt = f"/tmp/wt-{pid}"
out = f"/tmp/seeds-{tag}/{pid}"
print(f"""You are helping to evaluate a verification tool. Your job is to write small, realistic DEFECTS ("seeded changes") into a scratch copy of the PRQL compiler (repository max-sixty/prql, Rust, crates prqlc and prqlc-parser) that break ONE stated semantic property while the code still compiles and the existing test suite still passes. You do not know, and must not try to find out, how the verification tool works; do not read anything under /verif.

## The property ({pid})

```json
{json.dumps(prop, indent=1)}
```

## Your scratch worktree

* A git worktree of the repository is ready at `{wt}` (detached HEAD). Work ONLY there. Never edit, build in, or commit to `/repo`. Never commit in the worktree either (keep changes as working-tree diffs).
* Always build with `CARGO_TARGET_DIR={wt}-target` and offline: e.g. `cd {wt} && CARGO_NET_OFFLINE=true CARGO_TARGET_DIR={wt}-target cargo build -p prqlc --offline`. There is no network.
* The existing test suite is: `cd {wt} && CARGO_NET_OFFLINE=true CARGO_TARGET_DIR={wt}-target cargo nextest run --workspace --no-fail-fast --offline` (613 tests, all pass on the unchanged tree; about 2-4 minutes for the first build, ~15 s afterwards).
* The CLI binary after a build is `{wt}-target/debug/prqlc` (`prqlc compile --hide-signature-comment`, `prqlc fmt`, `prqlc lex`, `prqlc parse`, `prqlc debug ...`; stdin is read with `-`). For library-level demonstrations you may write a small Rust test file or example inside the worktree that you run with cargo (do not include it in patch.diff).

## What to produce: 3 independent seeded changes

Each change is a SMALL edit (typically 1-15 lines) to non-test source of `prqlc/prqlc/src/**` or `prqlc/prqlc-parser/src/**` (including `std.prql` / `std.sql.prql`) that:

1. still compiles, and with which ALL 613 existing tests still pass (run the full suite with the change applied; do not edit tests or snapshots);
2. makes the property above FALSE for some input(s) — you must demonstrate this with a script `demo.sh` that exits 0 on the unchanged tree and exits 1 with the change applied;
3. needs something SPECIFIC to manifest — a particular combination of transforms or dialect, an unusual input, a multi-step sequence, a second call in the same process, two cooperating sites that each look fine alone, a helper with several callers where only one breaks, an edge case of a boundary condition — NOT something that ordinary use would expose at once;
4. looks like a plausible mistake or "simplification"/"optimisation"/"cleanup" a developer could make in a real commit (an off-by-one, a dropped guard, a condition made slightly too wide or too narrow, a state field not restored, a changed default, an iterator adapter that drops elements, a swapped argument, a reordered pair of statements, an early return, a cache, a changed key of a map or of a sort ...).

The three changes must be INDEPENDENT of each other (each applies alone to the clean tree) and should use three DIFFERENT mechanisms in DIFFERENT functions (preferably different files). Prefer secondary mechanisms and less obvious places over the single most central table or function of the feature: look at helpers, save/restore of state, the order of two statements, defaults, conversions, error paths, interplay between two stages of the compiler.

{extra}

Work one change at a time: start from a clean worktree (`git -C {wt} checkout -- .`), make the edit, build, run the FULL test suite (all 613 must pass — if a test fails, the change is not acceptable: find another), write and verify the demonstration both ways (with the change: exit 1; after `git -C {wt} checkout -- .`: exit 0), then save the artefacts and clean the worktree before the next change.

## Artefacts (write them under `{out}-{tag}-<n>/` for n = 1, 2, 3)

* `patch.diff` — output of `git -C {wt} diff` for the change (must apply with `git apply` to the clean HEAD; source files only).
* `demo.sh` — a bash script that takes the worktree path from the environment variable `REPO` (default `{wt}`) and uses `CARGO_TARGET_DIR` from the environment (default `{wt}-target`), builds what it needs with `cargo build -p prqlc --offline` (or runs an example/test it carries itself), and exits 0 when the property holds for the demonstration input and 1 when it does not. It must print what it compared. Keep it self-contained (put inputs inline or in files next to it; extra files such as `input.prql` or a `demo.rs` are allowed in the same directory).
* `meta.json` — `{{"property": "{pid}", "summary": "<file, function, what was changed and why it breaks the property>", "needs": "<what exactly is needed for the defect to manifest, and which nearby inputs do NOT show it>", "ran": ["<commands you ran and their results, including the full test suite with the change>"], "demo_input": "...", "output_without_change": "...", "output_with_change": "..."}}`.

If after serious effort you can only produce fewer than three acceptable changes, deliver those you have and say why. At the end, leave the worktree clean (`git -C {wt} checkout -- .`; remove any untracked files you created in it) and reply with a short summary: for each change, the file/function, the one-line idea, and confirmation that (a) 613 tests pass with it, (b) demo exits 1 with it and 0 without it.
""")
